S = "sort_expr.py"
Y = "symmetry.py"
E = "expr_container.py"
O = "eri_orbenergy.py"
WITNESSES = [
    dict(id="c10-term-sym-sign", prop="C10", file=E, expect="R10a",
         old="            if original_term + permuted is S.Zero:\n                symmetry[perms] = -1\n            elif original_term - permuted is S.Zero:\n                symmetry[perms] = +1",
         new="            if original_term + permuted is S.Zero:\n                symmetry[perms] = +1\n            elif original_term - permuted is S.Zero:\n                symmetry[perms] = -1"),
    dict(id="c10-exploit-sign", prop="C10", file=S, expect="R10a",
         old="                        simplified = (\n                            simplify_terms(perm_term + terms[other_term_i])\n                        )",
         new="                        simplified = (\n                            simplify_terms(perm_term - terms[other_term_i])\n                        )"),
    dict(id="c10-probe-sign", prop="C10", file=Y, expect="R10a",
         old="                if sym_factor == -1:  # looking for antisym: P_pq X != -X\n                    if perm_term.sympy + term.sympy is not S.Zero:",
         new="                if sym_factor == -1:  # looking for antisym: P_pq X != -X\n                    if perm_term.sympy - term.sympy is not S.Zero:"),
    dict(id="c10-denom-sym", prop="C10", file=O, expect="R10a",
         old="            if denom - perm_denom is S.Zero:\n                ret[perms] = factor  # P_pq Denom = Denom -> +1\n            elif denom + perm_denom is S.Zero:\n                ret[perms] = factor * -1  # P_pq Denom = -Denom -> -1",
         new="            if denom - perm_denom is S.Zero or denom + perm_denom is S.Zero:\n                ret[perms] = factor"),
    dict(id="c10-partition-lost", prop="C10", file=S, expect="R10b",
         old="        if not d_idx:\n            d_idx = ('none',)\n        if d_idx not in ret:\n            ret[d_idx] = e.Expr(0, **term.assumptions)\n        ret[d_idx] += term",
         new="        if not d_idx:\n            continue\n        if d_idx not in ret:\n            ret[d_idx] = e.Expr(0, **term.assumptions)\n        ret[d_idx] += term"),
    dict(id="c10-exponent-label", prop="C10", file=S, expect="R10b",
         old="            t_blocks.extend(block for _ in range(tensor.exponent))", new="            t_blocks.append(block)"),
    dict(id="c10-candidates-hoisted", prop="C10", file=S, expect="R10b",
         old="                    if other_term_i in kept_terms or \\\n                            other_term_i in removed_terms:\n                        continue",
         new="                    if other_term_i in kept_terms:\n                        continue"),
    dict(id="c10-remove-unrecorded", prop="C10", file=S, expect="R10b",
         old="                    removed_terms.add(other_term_i)\n                    found_sym.append((perms, factor))\n                    break",
         new="                    removed_terms.add(other_term_i)\n                    break"),
    dict(id="c10-probe-class", prop="C10", file=S, expect="R10c",
         old='        tensor = SymmetricTensor("x", upper, lower, bra_ket_sym)', new='        tensor = AntiSymmetricTensor("x", upper, lower, bra_ket_sym)'),
    dict(id="c10-probe-bks", prop="C10", file=S, expect="R10c",
         old='        tensor = AntiSymmetricTensor("x", upper, lower, bra_ket_sym)\n    else:', new='        tensor = AntiSymmetricTensor("x", upper, lower)\n    else:'),
    dict(id="c10-restriction", prop="C10", file=E, expect="R10c",
         old="        if only_contracted:\n            indices = self.contracted\n        elif only_target:\n            indices = self.target\n        else:\n            indices = self.idx\n\n        if len(indices) < 2:",
         new="        if only_contracted:\n            indices = self.idx\n        elif only_target:\n            indices = self.target\n        else:\n            indices = self.idx\n\n        if len(indices) < 2:"),
    dict(id="c10-map-direction", prop="C10", file=Y, expect="R10d",
         old="                        map_contribution[term_i] = other_term_i", new="                        map_contribution[other_term_i] = term_i"),
    dict(id="c10-perm-canonical", prop="C10", file=Y, expect="R10d",
         old="        if sort_idx_canonical(p) < sort_idx_canonical(q):\n            args = (p, q)\n        else:\n            args = (q, p)", new="        args = (p, q)"),
    dict(id="c10-ok-continue-merge", prop="C10", file=S, expect=None,
         old="        d_blocks = tuple(sorted(d_blocks))\n        if not d_blocks:\n            d_blocks = ('none',)", new="        d_blocks = tuple(sorted(d_blocks))\n        if len(d_blocks) == 0:\n            d_blocks = ('none',)"),
]

F = "simplify.py"
I = "factor_intermediates.py"

# ---------------------------------------------------------------------------- behaviour-preserving edits of new kinds
WITNESSES += [
    # for loop -> while loop with an explicit position
    dict(id="c10-ok-while-loop", prop="C10", file=S, expect=None,
         old="        t_blocks = []\n        for tensor in term.tensors:\n            if tensor.name != t_name:\n                continue\n",
         new="        t_blocks = []\n        all_tensors = term.tensors\n        pos = 0\n        while pos < len(all_tensors):\n"
             "            tensor = all_tensors[pos]\n            pos += 1\n            if tensor.name != t_name:\n                continue\n"),
    # look before you leap -> try / except KeyError
    dict(id="c10-ok-eafp", prop="C10", file=S, expect=None,
         old="        if d_blocks not in ret:\n            ret[d_blocks] = e.Expr(0, **term.assumptions)\n        ret[d_blocks] += term\n",
         new="        try:\n            ret[d_blocks] += term\n        except KeyError:\n"
             "            ret[d_blocks] = e.Expr(0, **term.assumptions) + term\n"),
    # membership test + augmented assignment -> dict.get with default
    dict(id="c10-ok-dict-get", prop="C10", file=S, expect=None,
         old="            key = (f\"no_{t_name}\",)\n        if key not in ret:\n            ret[key] = 0\n        ret[key] += term\n",
         new="            key = (f\"no_{t_name}\",)\n        ret[key] = ret.get(key, 0) + term\n"),
    # branches swapped, literal-first comparisons, independent statements reordered, set.add -> |=
    dict(id="c10-ok-branch-order", prop="C10", file=S, expect=None, edits=[
        ("                if factor == -1:\n                    # looking for antisym: P_pq X = - X -> P_pq X + X = 0?\n"
         "                    if perm_term.sympy + term.sympy is S.Zero:\n                        continue\n"
         "                elif factor == 1:\n                    # looking for sym: P_pq X = + X -> P_pq X - X = 0?\n"
         "                    if perm_term.sympy - term.sympy is S.Zero:\n                        continue\n",
         "                if 1 == factor:\n                    if perm_term.sympy - term.sympy is S.Zero:\n                        continue\n"
         "                elif -1 == factor:\n                    if term.sympy + perm_term.sympy is S.Zero:\n                        continue\n"),
        ("                    removed_terms.add(other_term_i)\n                    found_sym.append((perms, factor))\n",
         "                    found_sym.append((perms, factor))\n                    removed_terms |= {other_term_i}\n")]),
    # two sign branches merged through arithmetic with the (validated) factor
    dict(id="c10-ok-arith-branch-merge", prop="C10", file=Y, expect=None,
         old="                    if sym_factor == -1:\n                        sum = simplify_terms(\n"
             "                            perm_term + self._terms[other_term_i]\n                        )\n"
             "                    # looking for sym: X + (P_pq X) = X + X'\n                    # P_pq X - X' = 0\n"
             "                    else:  # +1\n                        sum = simplify_terms(\n"
             "                            perm_term - self._terms[other_term_i]\n                        )\n",
         new="                    sum = simplify_terms(\n                        perm_term - self._terms[other_term_i] * sym_factor\n"
             "                    )\n"),
    # arithmetic spelling and operand order of the zero tests
    dict(id="c10-ok-negation-spelling", prop="C10", file=O, expect=None,
         old="            if denom - perm_denom is S.Zero:\n                ret[perms] = factor  # P_pq Denom = Denom -> +1\n"
             "            elif denom + perm_denom is S.Zero:\n                ret[perms] = factor * -1  # P_pq Denom = -Denom -> -1\n",
         new="            if perm_denom - denom is S.Zero:\n                ret[perms] = factor  # P_pq Denom = Denom -> +1\n"
             "            elif perm_denom + denom is S.Zero:\n                ret[perms] = -factor  # P_pq Denom = -Denom -> -1\n"),
    # generator -> list building helper; commuted sum
    dict(id="c10-ok-generator-to-list", prop="C10", file=E, expect=None, edits=[
        ("        def get_perms(*space_perms):\n            for perms in chain.from_iterable(space_perms):\n                yield perms\n"
         "            if len(space_perms) > 1:  # form the product\n                for perm_tpl in product(*space_perms):\n"
         "                    yield PermutationProduct(chain.from_iterable(perm_tpl))\n",
         "        def get_perms(*space_perms):\n            collected = list(chain.from_iterable(space_perms))\n"
         "            if len(space_perms) > 1:  # form the product\n                for perm_tpl in product(*space_perms):\n"
         "                    collected.append(\n                        PermutationProduct(chain.from_iterable(perm_tpl))\n                    )\n"
         "            return collected\n"),
        ("            if original_term + permuted is S.Zero:\n", "            if permuted + original_term is S.Zero:\n")]),
    # bound method alias, loop over positions instead of elements
    dict(id="c10-ok-method-alias", prop="C10", file=S, expect=None, edits=[
        ("            term: e.Expr = terms[term_i]\n            found_sym = []\n            for perms, factor in symmetry.items():\n"
         "                # apply the permutations to the current term\n                perm_term = term.permute(*perms)\n",
         "            term: e.Expr = terms[term_i]\n            found_sym = []\n            apply_to_term = term.permute\n"
         "            sym_items = list(symmetry.items())\n            for sym_pos in range(len(sym_items)):\n"
         "                perms, factor = sym_items[sym_pos]\n                # apply the permutations to the current term\n"
         "                perm_term = apply_to_term(*perms)\n")]),
    # if/else -> sorted with the same key
    dict(id="c10-ok-sorted-pair", prop="C10", file=Y, expect=None,
         old="        if sort_idx_canonical(p) < sort_idx_canonical(q):\n            args = (p, q)\n        else:\n            args = (q, p)\n",
         new="        args = tuple(sorted((p, q), key=sort_idx_canonical))\n"),
    # reversed difference (x - y = 0 <=> y - x = 0)
    dict(id="c10-ok-reversed-difference", prop="C10", file=I, expect=None,
         old="    if vanishes(remainder - ref_remainder):\n", new="    if vanishes(ref_remainder - remainder):\n"),
    # in-place update of the assumptions -> merged dict display
    dict(id="c10-ok-dict-merge", prop="C10", file=E, expect=None,
         old="        assumptions = self.assumptions\n        assumptions['target_idx'] = indices\n"
             "        # create a term obj and use the appropriate indices as target_idx\n"
             "        new_expr = Expr(self.sympy, **assumptions)\n",
         new="        # create a term obj and use the appropriate indices as target_idx\n"
             "        new_expr = Expr(self.sympy, **{**self.assumptions, 'target_idx': indices})\n"),
    # comprehension with filter -> explicit loop collecting into a list
    dict(id="c10-ok-filter-loop", prop="C10", file=F, expect=None,
         old="    filtered = Add(*[term.sympy for term in expr.terms if check_term(term)])\n",
         new="    kept = []\n    for term in expr.terms:\n        if not check_term(term):\n            continue\n"
             "        kept.append(term.sympy)\n    filtered = Add(*kept)\n"),
    # helper method extracted into the class
    dict(id="c10-ok-extracted-method", prop="C10", file=Y, expect=None, edits=[
        ("    def probe_symmetry(self, permutations: PermutationProduct,\n                       sym_factor: int) -> dict:\n",
         "    def _is_own_image(self, term, perm_term, sym_factor: int) -> bool:\n"
         "        if sym_factor == -1:\n            return perm_term.sympy + term.sympy is S.Zero\n"
         "        return perm_term.sympy - term.sympy is S.Zero\n\n"
         "    def probe_symmetry(self, permutations: PermutationProduct,\n                       sym_factor: int) -> dict:\n"),
        ("                if sym_factor == -1:  # looking for antisym: P_pq X != -X\n"
         "                    if perm_term.sympy + term.sympy is not S.Zero:\n"
         "                        relevant_terms.append((term_i, perm_term))\n"
         "                else:  # looking for sym: P_pq X != X\n"
         "                    if perm_term.sympy - term.sympy is not S.Zero:\n"
         "                        relevant_terms.append((term_i, perm_term))\n",
         "                if not self._is_own_image(term, perm_term, sym_factor):\n"
         "                    relevant_terms.append((term_i, perm_term))\n")]),
]

# ---------------------------------------------------------------------------- breaking edits for the new checks
WITNESSES += [
    dict(id="c10-key-unsorted", prop="C10", file=S, expect="R10b",
         old="        key = tuple(sorted(key))  # in case of multiple occurences\n", new="        key = tuple(key)\n"),
    dict(id="c10-delta-idx-multiplicity", prop="C10", file=S, expect="R10b",
         old="            \"\".join(str(s) for s in o.idx) for o in term.deltas\n            for _ in range(o.exponent)\n",
         new="            \"\".join(str(s) for s in o.idx) for o in term.deltas\n"),
    dict(id="c10-filter-at-least", prop="C10", file=F, expect="R10b",
         old="            return desired.items() <= available.items()\n",
         new="            return all(available[t] >= n for t, n in desired.items())\n"),
    dict(id="c10-filter-multiplicity", prop="C10", file=F, expect="R10b",
         old="        available = [o.name for o in term.tensors for _ in range(o.exponent)]\n",
         new="        available = [o.name for o in term.tensors]\n"),
    dict(id="c10-number-lost", prop="C10", file=S, expect="R10b",
         old="    if expr.sympy.is_number:\n        return {tuple(): expr}\n", new="    if expr.sympy.is_number:\n        return {}\n"),
    dict(id="c10-unique-term-lost", prop="C10", file=S, expect="R10b",
         old="            ret[tuple()] += terms[term_idx_list[0]]\n            continue\n", new="            continue\n"),
    dict(id="c10-exploit-wrong-factor", prop="C10", file=S, expect=["R10b", "R10c"],
         old="                    found_sym.append((perms, factor))\n", new="                    found_sym.append((perms, -factor))\n"),
    dict(id="c10-bks-kept", prop="C10", file=S, expect="R10c",
         old="        upper, lower = ref_target, tuple()\n        bra_ket_sym = 0\n", new="        upper, lower = ref_target, tuple()\n"),
    dict(id="c10-spin-split", prop="C10", file=S, expect="R10c",
         old="                lower_spin = target_spin[len(upper):]\n", new="                lower_spin = target_spin[len(lower):]\n"),
    dict(id="c10-target-check-removed", prop="C10", file=S, expect="R10c",
         old="        if sorted_provided_target != ref_target:\n", new="        if False and sorted_provided_target != ref_target:\n"),
    dict(id="c10-sym-incomplete", prop="C10", file=E, expect="R10c",
         old="                permutations(pairs, n) for n in range(1, len(idx_list))\n",
         new="                permutations(pairs, n) for n in range(1, 2)\n"),
    dict(id="c10-sym-across-spin", prop="C10", file=E, expect="R10c",
         old="            if (key := s.space_and_spin) not in sorted_idx:\n", new="            if (key := s.space) not in sorted_idx:\n"),
    dict(id="c10-obj-sym-all-indices", prop="C10", file=E, expect="R10c",
         old="        return new_expr.terms[0].symmetry(only_target=True)\n", new="        return new_expr.terms[0].symmetry()\n"),
    dict(id="c10-evaluate-both-slots", prop="C10", file=Y, expect="R10c",
         old="            tensor = AntiSymmetricTensor(\"x\", tuple(), self.target_indices)\n",
         new="            tensor = AntiSymmetricTensor(\"x\", self.target_indices,\n                                         self.target_indices)\n"),
    dict(id="c10-probe-nontarget", prop="C10", file=Y, expect="R10d",
         old="        if any(s not in target_indices\n               for s in chain.from_iterable(permutations)):\n",
         new="        if False and any(s not in target_indices\n               for s in chain.from_iterable(permutations)):\n"),
    dict(id="c10-map-store-key", prop="C10", file=Y, expect="R10d",
         old="        self._term_map[(tuple(permutations), sym_factor)] = map_contribution\n",
         new="        self._term_map[(tuple(permutations), -sym_factor)] = map_contribution\n"),
    dict(id="c10-product-reversed", prop="C10", file=Y, expect="R10d",
         old="        args = [val for _, val in sorted(splitted.items())]\n        return super().__new__(cls, chain.from_iterable(args))\n",
         new="        args = [val[::-1] for _, val in sorted(splitted.items())]\n        return super().__new__(cls, chain.from_iterable(args))\n"),
    dict(id="c10-product-unsorted-groups", prop="C10", file=Y, expect="R10d",
         old="        args = [val for _, val in sorted(splitted.items())]\n        return super().__new__(cls, chain.from_iterable(args))\n",
         new="        args = [val for _, val in splitted.items()]\n        return super().__new__(cls, chain.from_iterable(args))\n"),
    dict(id="c10-denom-invalid-kept", prop="C10", file=O, expect="R10a",
         old="            if perm_denom is S.Zero and denom is not S.Zero:\n                continue\n\n            if denom - perm_denom is S.Zero:\n",
         new="            if denom - perm_denom is S.Zero:\n"),
    dict(id="c10-denom-changed-kept", prop="C10", file=O, expect="R10a",
         old="            else:  # permutation changes the denominator\n                ret[perms] = None\n",
         new="            else:  # permutation changes the denominator\n                ret[perms] = factor\n"),
    dict(id="c10-remainder-sum", prop="C10", file=I, expect="R10a",
         old="    if vanishes(remainder - ref_remainder):\n        return 1\n    elif vanishes(remainder + ref_remainder):\n        return -1\n",
         new="    if vanishes(remainder + ref_remainder):\n        return 1\n    elif vanishes(remainder - ref_remainder):\n        return -1\n"),
    dict(id="c10-remainder-sign-swapped", prop="C10", file=I, expect="R10a",
         old="    elif vanishes(remainder + ref_remainder):\n        return -1\n    return None\n",
         new="    elif vanishes(remainder + ref_remainder):\n        return 1\n    return None\n"),
    dict(id="c10-term-sym-relevance", prop="C10", file=Y, expect="R10a",
         old="                else:  # looking for sym: P_pq X != X\n                    if perm_term.sympy - term.sympy is not S.Zero:\n",
         new="                else:  # looking for sym: P_pq X != X\n                    if perm_term.sympy + term.sympy is not S.Zero:\n"),
]

# ---------------------------------------------------------------------------- round 4: factor of product permutations
_GP_OLD = ("            for perms in chain.from_iterable(space_perms):\n                yield perms\n"
           "            if len(space_perms) > 1:  # form the product\n                for perm_tpl in product(*space_perms):\n"
           "                    yield PermutationProduct(chain.from_iterable(perm_tpl))\n")
_GP_NEW = ("            for perms in chain.from_iterable(space_perms):\n                yield perms, None\n"
           "            if len(space_perms) > 1:  # form the product\n                for perm_tpl in product(*space_perms):\n"
           "                    yield (PermutationProduct(chain.from_iterable(perm_tpl)),\n                           perm_tpl)\n")
_LOOP_OLD = "        for perms in get_perms(*space_perms):\n            permuted = self.permute(*perms).sympy\n"
WITNESSES += [
    # the factor of a product is taken from the first two single-class parts only (seed C10-8)
    dict(id="c10-product-factor-two-parts", prop="C10", file=E, expect="R10a", edits=[
        (_GP_OLD, _GP_NEW),
        (_LOOP_OLD,
         "        for perms, parts in get_perms(*space_perms):\n"
         "            if parts is not None and all(p in symmetry for p in parts):\n"
         "                occ_perms, virt_perms = parts[:2]\n"
         "                symmetry[perms] = symmetry[occ_perms] * symmetry[virt_perms]\n"
         "                continue\n"
         "            permuted = self.permute(*perms).sympy\n")]),
    # the same shortcut with the factors of all parts: behaviour preserving
    dict(id="c10-ok-product-factor-all-parts", prop="C10", file=E, expect=None, edits=[
        (_GP_OLD, _GP_NEW),
        (_LOOP_OLD,
         "        for perms, parts in get_perms(*space_perms):\n"
         "            if parts is not None and all(p in symmetry for p in parts):\n"
         "                known_factor = 1\n"
         "                for part in parts:\n"
         "                    known_factor *= symmetry[part]\n"
         "                symmetry[perms] = known_factor\n"
         "                continue\n"
         "            permuted = self.permute(*perms).sympy\n")]),
    # a product whose factor ignores a symmetric part would still be right; dropping the last part is not
    dict(id="c10-product-factor-last-dropped", prop="C10", file=E, expect="R10a", edits=[
        (_GP_OLD, _GP_NEW),
        (_LOOP_OLD,
         "        for perms, parts in get_perms(*space_perms):\n"
         "            if parts is not None and all(p in symmetry for p in parts):\n"
         "                known_factor = 1\n"
         "                for part in parts[:-1]:\n"
         "                    known_factor *= symmetry[part]\n"
         "                symmetry[perms] = known_factor\n"
         "                continue\n"
         "            permuted = self.permute(*perms).sympy\n")]),
]

# ---------------------------------------------------------------------------- round 5: F35 (a kept term is not generated again)
_F35_A = ("    # terms that have already been added to the result: they must not be\n"
          "    # generated a second time by permuting another term.\n    kept_terms = set()\n")
_F35_B = "            kept_terms.add(term_i)\n"
_F35_C = ("                    if other_term_i in kept_terms or \\\n                            other_term_i in removed_terms:\n")
_F35_C_OLD = "                    if term_i == other_term_i or other_term_i in removed_terms:\n"
WITNESSES += [
    dict(id="c10-f35-revert", prop="C10", file=S, expect="R10b", edits=[(_F35_A, ""), (_F35_B, ""), (_F35_C, _F35_C_OLD)]),
    # the alternative repair: the processed term joins removed_terms, which the partner search skips
    dict(id="c10-ok-f35-twin", prop="C10", file=S, expect=None, edits=[
        (_F35_A, ""), (_F35_B, ""), (_F35_C, _F35_C_OLD),
        ("            # use the found symmetry as dict key\n            found_sym = tuple(found_sym)\n",
         "            removed_terms.add(term_i)\n            # use the found symmetry as dict key\n            found_sym = tuple(found_sym)\n")]),
    # only the current term is excluded again (kept terms of earlier rounds are candidates)
    dict(id="c10-f35-kept-only-current", prop="C10", file=S, expect="R10b", edits=[
        (_F35_C, "                    if other_term_i == term_i or \\\n                            other_term_i in removed_terms:\n")]),
]

# ---------------------------------------------------------------------------- round 5: grouping of the terms by key
_IMP = ("from collections import defaultdict\n", "from collections import defaultdict\nfrom itertools import groupby\nfrom sympy import Add\n")
_TB_HEAD = ("    ret = {}\n    for term in expr.terms:\n        t_blocks = []\n        for tensor in term.tensors:\n            if tensor.name != t_name:\n",
            "    def tensor_blocks(term: e.Term) -> tuple[str]:\n        t_blocks = []\n        for tensor in term.tensors:\n"
            "            if tensor.name != t_name:\n")
_TB_TAIL_OLD = ("        t_blocks = tuple(sorted(t_blocks))\n        if not t_blocks:\n            t_blocks = (\"none\",)\n"
                "        if t_blocks not in ret:\n            ret[t_blocks] = e.Expr(0, **term.assumptions)\n        ret[t_blocks] += term\n")
_TB_KEY = "        if not t_blocks:\n            return (\"none\",)\n        return tuple(sorted(t_blocks))\n\n    ret = {}\n"
WITNESSES += [
    # groupby over the terms in their given order: runs of equal keys overwrite each other (seed C10-11)
    dict(id="c10-groupby-unsorted", prop="C10", file=S, expect="R10b", edits=[_IMP, _TB_HEAD, (
        _TB_TAIL_OLD, _TB_KEY +
        "    for t_blocks, terms in groupby(expr.terms, key=tensor_blocks):\n"
        "        ret[t_blocks] = e.Expr(Add(*(term.sympy for term in terms)),\n                               **expr.assumptions)\n")]),
    # the same with the terms sorted by their key first: every key forms one run
    dict(id="c10-ok-groupby-sorted", prop="C10", file=S, expect=None, edits=[_IMP, _TB_HEAD, (
        _TB_TAIL_OLD, _TB_KEY +
        "    for t_blocks, terms in groupby(sorted(expr.terms, key=tensor_blocks),\n                                   key=tensor_blocks):\n"
        "        ret[t_blocks] = e.Expr(Add(*(term.sympy for term in terms)),\n                               **expr.assumptions)\n")]),
    # collect the terms per key (setdefault / append), build every part at once
    dict(id="c10-ok-collect-then-build", prop="C10", file=S, expect=None, edits=[_IMP, _TB_HEAD, (
        _TB_TAIL_OLD, _TB_KEY +
        "    collected = {}\n    for term in expr.terms:\n        collected.setdefault(tensor_blocks(term), []).append(term.sympy)\n"
        "    for t_blocks, summands in collected.items():\n        ret[t_blocks] = e.Expr(Add(*summands), **expr.assumptions)\n")]),
    # runs that meet an existing key are added to it: lossless as well
    dict(id="c10-ok-groupby-accumulate", prop="C10", file=S, expect=None, edits=[_IMP, _TB_HEAD, (
        _TB_TAIL_OLD, _TB_KEY +
        "    for t_blocks, terms in groupby(expr.terms, key=tensor_blocks):\n"
        "        if t_blocks not in ret:\n            ret[t_blocks] = e.Expr(0, **expr.assumptions)\n"
        "        for term in terms:\n            ret[t_blocks] += term\n")]),
]
