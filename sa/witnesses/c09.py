F = "func.py"
S = "sympy_objects.py"
WITNESSES = [
    dict(id="c09-drop-target-guard", prop="C09", file=F, expect="R09a",
         old="            if killable not in target_idx:\n                # both indices are contracted",
         new="            if True:\n                # both indices are contracted"),
    dict(id="c09-drop-equal-info", prop="C09", file=F, expect="R09a",
         old="            elif preferred not in target_idx \\\n                    and d.indices_contain_equal_information:",
         new="            elif preferred not in target_idx:"),
    dict(id="c09-swapped-subs", prop="C09", file=F, expect="R09a",
         old="expr = expr.subs(killable, preferred)", new="expr = expr.subs(preferred, killable)"),
    dict(id="c09-wrong-target-guard", prop="C09", file=F, expect="R09a",
         old="            elif preferred not in target_idx \\", new="            elif killable in target_idx \\"),
    dict(id="c09-pk-table", prop="C09", file=S, expect="R09b",
         old="""        elif spin2:  # na / nb  -> 2 holds more information
            if space1 == space2 or space1 == "g":""",
         new="""        elif spin2:  # na / nb  -> 2 holds more information
            if space1 == space2 or space1 == "g" or space2 == "g":"""),
    dict(id="c09-pk-swap", prop="C09", file=S, expect="R09b",
         old="""            else:  # go / gv
                return (j, i)""", new="""            else:  # go / gv
                return (i, j)"""),
    dict(id="c09-equal-info-or", prop="C09", file=S, expect="R09b",
         old="return i.space == j.space and i.spin == j.spin", new="return i.space == j.space or i.spin == j.spin"),
    dict(id="c09-target-count", prop="C09", file=F, expect="R09c",
         old="target_idx = [s for s, n in indices.items() if not n]", new="target_idx = [s for s, n in indices.items() if n]"),
    dict(id="c09-no-recursion", prop="C09", file=F, expect="R09c",
         old="""                expr = expr.subs(killable, preferred)
                if len(deltas) > 1:
                    return evaluate_deltas(expr, target_idx)
                continue""", new="""                expr = expr.subs(killable, preferred)
                continue"""),
    dict(id="c09-recursion-loses-target", prop="C09", file=F, expect="R09c",
         old="""                expr = expr.subs(preferred, killable)
                if len(deltas) > 1:
                    return evaluate_deltas(expr, target_idx)""",
         new="""                expr = expr.subs(preferred, killable)
                if len(deltas) > 1:
                    return evaluate_deltas(expr)"""),
    # behaviour preserving
    dict(id="c09-ok-subscripts", prop="C09", file=F, expect=None,
         old="""            preferred, killable = idx
            # try to remove killable
            if killable not in target_idx:
                # both indices are contracted""",
         new="""            preferred = idx[0]
            killable = idx[1]
            if not (killable in target_idx):
                # both indices are contracted"""),
    dict(id="c09-ok-pk-refactor", prop="C09", file=S, expect=None,
         old="""        if spin1 == spin2:  # nn / aa / bb  -> equal information
            if space1 == space2 or space2 == "g":  # oo / vv / gg / og / vg
                return (i, j)
            else:  # go / gv
                return (j, i)""",
         new="""        if spin1 == spin2:  # nn / aa / bb  -> equal information
            if space1 != space2 and space2 != "g":
                return (j, i)
            return (i, j)"""),
    # ---- breaking witnesses for the checks introduced with the evaluation on the orbital model
    dict(id="c09-none-guard-removed", prop="C09", file=F, expect="R09a",
         old="""            idx = d.preferred_and_killable
            if idx is None:  # delta_{i p_alpha}
                continue
            preferred, killable = idx""",
         new="""            idx = d.preferred_and_killable
            preferred, killable = idx"""),
    dict(id="c09-pk-incomplete", prop="C09", file=S, expect="R09b",
         old="""            if space1 == space2 or space1 == "g":  # oo / vv / gg / go / gv
                return (j, i)""",
         new="""            if space1 == space2:
                return (j, i)"""),
    dict(id="c09-add-drops-targets", prop="C09", file=F, expect="R09c",
         old="""        return expr.func(*[evaluate_deltas(arg, target_idx)
                           for arg in expr.args])""",
         new="""        return expr.func(*[evaluate_deltas(arg)
                           for arg in expr.args])"""),
    dict(id="c09-no-get-symbols", prop="C09", file=F, expect="R09c",
         old="            target_idx = get_symbols(target_idx)\n", new="            target_idx = list(target_idx)\n"),
    dict(id="c09-subs-result-dropped", prop="C09", file=F, expect="R09c",
         old="                expr = expr.subs(killable, preferred)\n", new="                expr.subs(killable, preferred)\n"),
    dict(id="c09-counter-starts-at-one", prop="C09", file=F, expect=["R09a", "R09c"],
         old="                        indices[s] = 0", new="                        indices[s] = 1"),
    dict(id="c09-explicit-first-delta-only", prop="C09", file=F, expect="R09c",
         old="            deltas = [d for d in expr.args if isinstance(d, KroneckerDelta)]",
         new="            deltas = [d for d in expr.args if isinstance(d, KroneckerDelta)][:1]"),
    dict(id="c09-restart-needs-three", prop="C09", file=F, expect="R09c",
         old="""                expr = expr.subs(killable, preferred)
                if len(deltas) > 1:""",
         new="""                expr = expr.subs(killable, preferred)
                if len(deltas) > 2:"""),
    dict(id="c09-count-atoms-of-term", prop="C09", file=F, expect=["R09a", "R09c"],
         old="                for s in obj.atoms(Index):", new="                for s in expr.atoms(Index):"),
    # ---- behaviour preserving, kinds that are not in the refactoring corpus
    dict(id="c09-ok-counter", prop="C09", file=F, expect=None,
         old="""            deltas = []
            indices = {}
            for obj in expr.args:
                for s in obj.atoms(Index):
                    if s in indices:
                        indices[s] += 1
                    else:
                        indices[s] = 0
                if isinstance(obj, KroneckerDelta):
                    deltas.append(obj)
            # extract the target indices and use them in next recursion
            # so they only need to be determined once
            target_idx = [s for s, n in indices.items() if not n]""",
         new="""            from collections import Counter
            indices = Counter(s for obj in expr.args
                              for s in obj.atoms(Index))
            deltas = [obj for obj in expr.args
                      if isinstance(obj, KroneckerDelta)]
            target_idx = [s for s, n in indices.items() if n == 1]"""),
    dict(id="c09-ok-extracted-decision", prop="C09", file=F, expect=None, edits=[
        ("def evaluate_deltas(expr, target_idx: str = None):",
         """def _delta_substitution(delta, targets, others):
    pair = delta.preferred_and_killable
    if pair is None:
        return None
    keep, kill = pair
    if kill not in targets:
        if keep not in targets and not any(
                o.has(keep) or o.has(kill) for o in others):
            return None
        return kill, keep
    if keep not in targets and delta.indices_contain_equal_information:
        return keep, kill
    return None


def evaluate_deltas(expr, target_idx: str = None):"""),
        ("""            idx = d.preferred_and_killable
            if idx is None:  # delta_{i p_alpha}
                continue
            preferred, killable = idx
            # try to remove killable
            if killable not in target_idx:
                # both indices are contracted and do only occur on the delta:
                # sum_pq delta_pq gives the dimension of the space and not 1
                # -> no index can be removed without loosing the sum
                if preferred not in target_idx and not any(
                        obj.has(preferred) or obj.has(killable)
                        for obj in expr.args if obj is not d):
                    continue
                expr = expr.subs(killable, preferred)
                if len(deltas) > 1:
                    return evaluate_deltas(expr, target_idx)
                continue
            # try to remove preferred.
            # But only if no information is lost if doing so
            # -> killable has to be of length 1
            elif preferred not in target_idx \\
                    and d.indices_contain_equal_information:
                expr = expr.subs(preferred, killable)
                if len(deltas) > 1:
                    return evaluate_deltas(expr, target_idx)
        return expr""",
         """            sub = _delta_substitution(
                d, target_idx, [obj for obj in expr.args if obj is not d])
            if sub is None:
                continue
            expr = expr.subs(*sub)
            if len(deltas) > 1:
                return evaluate_deltas(expr, target_idx)
        return expr""")]),
    dict(id="c09-ok-closure-predicate", prop="C09", file=F, expect=None, edits=[
        ("        for d in deltas:\n            # determine the killable and preferred index",
         "        def removable(s):\n            return s not in target_idx\n\n"
         "        for d in deltas:\n            # determine the killable and preferred index"),
        ("            if killable not in target_idx:\n", "            if removable(killable):\n"),
        ("            elif preferred not in target_idx \\\n", "            elif removable(preferred) \\\n")]),
    dict(id="c09-ok-subs-dict", prop="C09", file=F, expect=None, edits=[
        ("expr = expr.subs(killable, preferred)", "expr = expr.subs({killable: preferred})"),
        ("expr = expr.subs(preferred, killable)", "expr = expr.subs([(preferred, killable)])")]),
    dict(id="c09-ok-target-set", prop="C09", file=F, expect=None,
         old="target_idx = [s for s, n in indices.items() if not n]", new="target_idx = {s for s, n in indices.items() if n < 1}"),
    dict(id="c09-ok-walrus", prop="C09", file=F, expect=None,
         old="""            idx = d.preferred_and_killable
            if idx is None:  # delta_{i p_alpha}
                continue
            preferred, killable = idx""",
         new="""            if (idx := d.preferred_and_killable) is None:
                continue
            preferred, killable = idx[0], idx[-1]"""),
    dict(id="c09-ok-all-generator", prop="C09", file=F, expect=None,
         old="            if killable not in target_idx:\n", new="            if all(t != killable for t in target_idx):\n"),
    dict(id="c09-ok-class-flags", prop="C09", file=F, expect=None, edits=[
        ("""    if isinstance(expr, Add):
        return expr.func(*[evaluate_deltas(arg, target_idx)
                           for arg in expr.args])
    elif isinstance(expr, Mul):
        if target_idx is None:
            # for determining""", """    if expr.is_Add:
        terms = []
        for arg in expr.args:
            terms.append(evaluate_deltas(arg, target_idx))
        return Add(*terms)
    elif expr.is_Mul:
        if target_idx is None:
            # for determining""")]),
    dict(id="c09-ok-pk-covers", prop="C09", file=S, expect=None,
         old="""        if spin1 == spin2:  # nn / aa / bb  -> equal information
            if space1 == space2 or space2 == "g":  # oo / vv / gg / og / vg
                return (i, j)
            else:  # go / gv
                return (j, i)
        elif spin2:  # na / nb  -> 2 holds more information
            if space1 == space2 or space1 == "g":  # oo / vv / gg / go / gv
                return (j, i)
            else:  # og / vg  -> 1 holds more space information
                return None
        else:  # an / bn  -> 1 holds more information
            if space1 == space2 or space2 == "g":  # oo / vv / gg / og / vg
                return (i, j)
            else:  # go / gv  -> 2 holds more space information
                return None""",
         new="""        def covers(sp_a, sp_b):
            return sp_a == sp_b or sp_b == "g"

        if spin1 == spin2:
            return (i, j) if covers(space1, space2) else (j, i)
        if spin2:
            return (j, i) if covers(space2, space1) else None
        return (i, j) if covers(space1, space2) else None"""),
    dict(id="c09-ok-equal-info-tuple", prop="C09", file=S, expect=None,
         old="return i.space == j.space and i.spin == j.spin", new="return i.space_and_spin == j.space_and_spin"),
    dict(id="c09-ok-idx-property", prop="C09", file=S, expect=None,
         old="""        i, j = self.args
        return i.space == j.space and i.spin == j.spin""",
         new="""        first, second = self.idx
        return not (first.space != second.space or first.spin != second.spin)"""),
    # ---- targets in the recursion (seed C09-4): determined once and passed down vs re-determined on the substituted term
    dict(id="c09-recursion-redetermines-targets", prop="C09", file=F, expect="R09c", edits=[
        ("""            # extract the target indices and use them in next recursion
            # so they only need to be determined once
            target_idx = [s for s, n in indices.items() if not n]""",
         """            # extract the target indices
            targets = [s for s, n in indices.items() if not n]"""),
        ("            target_idx = get_symbols(target_idx)\n", "            targets = get_symbols(target_idx)\n"),
        ("            if killable not in target_idx:\n", "            if killable not in targets:\n"),
        ("                if preferred not in target_idx and not any(\n", "                if preferred not in targets and not any(\n"),
        ("            elif preferred not in target_idx \\\n", "            elif preferred not in targets \\\n"),
    ]),
    dict(id="c09-ok-targets-local-passed-down", prop="C09", file=F, expect=None, edits=[
        ("""            # extract the target indices and use them in next recursion
            # so they only need to be determined once
            target_idx = [s for s, n in indices.items() if not n]""",
         """            # extract the target indices
            targets = [s for s, n in indices.items() if not n]"""),
        ("            target_idx = get_symbols(target_idx)\n", "            targets = get_symbols(target_idx)\n"),
        ("            if killable not in target_idx:\n", "            if killable not in targets:\n"),
        ("                if preferred not in target_idx and not any(\n", "                if preferred not in targets and not any(\n"),
        ("            elif preferred not in target_idx \\\n", "            elif preferred not in targets \\\n"),
        ("""                expr = expr.subs(killable, preferred)
                if len(deltas) > 1:
                    return evaluate_deltas(expr, target_idx)""",
         """                expr = expr.subs(killable, preferred)
                if len(deltas) > 1:
                    return evaluate_deltas(expr, targets)"""),
        ("""                expr = expr.subs(preferred, killable)
                if len(deltas) > 1:
                    return evaluate_deltas(expr, target_idx)""",
         """                expr = expr.subs(preferred, killable)
                if len(deltas) > 1:
                    return evaluate_deltas(expr, target_idx=tuple(targets))"""),
    ]),
    # explicit targets are re-parsed from the untouched argument in the recursion (get_symbols is deterministic: equal
    # targets); convention targets are determined once and passed down
    dict(id="c09-ok-explicit-targets-reparsed", prop="C09", file=F, expect=None, edits=[
        ("""            target_idx = [s for s, n in indices.items() if not n]""",
         """            targets = [s for s, n in indices.items() if not n]
            target_idx = targets"""),
        ("            target_idx = get_symbols(target_idx)\n", "            targets = get_symbols(target_idx)\n"),
        ("            if killable not in target_idx:\n", "            if killable not in targets:\n"),
        ("                if preferred not in target_idx and not any(\n", "                if preferred not in targets and not any(\n"),
        ("            elif preferred not in target_idx \\\n", "            elif preferred not in targets \\\n"),
    ]),
    # the restart goes through a local closure that captured the targets determined once
    dict(id="c09-ok-restart-closure", prop="C09", file=F, expect=None, edits=[
        ("        for d in deltas:\n            # determine the killable and preferred index",
         "        def restart(new_expr, known=target_idx):\n            return evaluate_deltas(new_expr, target_idx=known)\n\n"
         "        for d in deltas:\n            # determine the killable and preferred index"),
        ("""                expr = expr.subs(killable, preferred)
                if len(deltas) > 1:
                    return evaluate_deltas(expr, target_idx)""",
         """                expr = expr.subs(killable, preferred)
                if len(deltas) > 1:
                    return restart(expr)"""),
        ("""                expr = expr.subs(preferred, killable)
                if len(deltas) > 1:
                    return evaluate_deltas(expr, target_idx)""",
         """                expr = expr.subs(preferred, killable)
                if len(deltas) > 1:
                    return restart(expr)"""),
    ]),
    # the same closure built before the targets are determined captures the original argument: targets re-determined
    dict(id="c09-restart-closure-captures-argument", prop="C09", file=F, expect="R09c", edits=[
        ("    elif isinstance(expr, Mul):\n        if target_idx is None:",
         "    elif isinstance(expr, Mul):\n        def restart(new_expr, known=target_idx):\n"
         "            return evaluate_deltas(new_expr, target_idx=known)\n\n        if target_idx is None:"),
        ("""                expr = expr.subs(killable, preferred)
                if len(deltas) > 1:
                    return evaluate_deltas(expr, target_idx)""",
         """                expr = expr.subs(killable, preferred)
                if len(deltas) > 1:
                    return restart(expr)"""),
    ]),
    # ---- F30 (d75a3e8): a delta with two contracted indices that occur on no other object is kept
    dict(id="c09-f30-revert", prop="C09", file=F, expect="R09c",
         old="""                if preferred not in target_idx and not any(
                        obj.has(preferred) or obj.has(killable)
                        for obj in expr.args if obj is not d):
                    continue
""", new=""),
    dict(id="c09-f30-ok-twin", prop="C09", file=F, expect=None,
         old="""                if preferred not in target_idx and not any(
                        obj.has(preferred) or obj.has(killable)
                        for obj in expr.args if obj is not d):
                    continue
""",
         new="""                elsewhere = set()
                for obj in expr.args:
                    if obj is not d:
                        elsewhere |= obj.atoms(Index)
                if not (preferred in target_idx or preferred in elsewhere
                        or killable in elsewhere):
                    continue
"""),
    # only one of the two indices is looked for elsewhere: delta_pq X_q with p, q contracted keeps its delta
    dict(id="c09-f30-half-test", prop="C09", file=F, expect="R09c",
         old="                        obj.has(preferred) or obj.has(killable)\n", new="                        obj.has(killable)\n"),
    # ---- F29 (df7e47e): wicks hands the target indices of its input to evaluate_deltas
    dict(id="c09-f29-revert", prop="C09", file=F, expect="R09d",
         old="""                target = _indices_on_single_object(expr)
                result = Add(*[
                    evaluate_deltas(
                        term, target_idx=target + [
                            s for s in _indices_on_single_object(term)
                            if s not in target
                        ]
                    ) for term in Add.make_args(result)
                ])""",
         new="""                result = evaluate_deltas(result)"""),
    dict(id="c09-f29-ok-twin", prop="C09", file=F, expect=None,
         old="""                target = _indices_on_single_object(expr)
                result = Add(*[
                    evaluate_deltas(
                        term, target_idx=target + [
                            s for s in _indices_on_single_object(term)
                            if s not in target
                        ]
                    ) for term in Add.make_args(result)
                ])""",
         new="""                protected = set(_indices_on_single_object(expr))
                terms = []
                for term in Add.make_args(result):
                    keep = protected | set(_indices_on_single_object(term))
                    terms.append(evaluate_deltas(term, list(keep)))
                result = Add(*terms)"""),
    # the targets of the contracted term instead of those of the input: q of delta_pq delta_qi is on two deltas
    dict(id="c09-f29-targets-of-result", prop="C09", file=F, expect="R09d",
         old="                target = _indices_on_single_object(expr)\n", new="                target = _indices_on_single_object(result)\n"),
    dict(id="c09-fock-drops-targets", prop="C09", file="expr_container.py", expect="R09d",
         old="result = evaluate_deltas(self.sympy * delta, target_idx=target)", new="result = evaluate_deltas(self.sympy * delta)"),
    dict(id="c09-fock-ok-positional", prop="C09", file="expr_container.py", expect=None,
         old="result = evaluate_deltas(self.sympy * delta, target_idx=target)",
         new="product = delta * self.sympy\n        result = evaluate_deltas(product, list(target))"),
]
