"""C20 unitary-tensor simplification (structural clauses)."""
from __future__ import annotations

import ast

from ..model import AnalysisError, U, Defs, calls_in, call_name, walk_fn, kwarg, enclosing, enclosing_stmt
from ..pathcond import conditions
from . import common

EXPLANATION = (
    "R20a: every KroneckerDelta(a, b) built in simplify_term_unitary is dominated by X == Y for the "
    "shared position k of the two unitary tensors, X not in target, idx_counter[X] == 2, and a, b "
    "are the two other positions (1-k) of the same two tensors; only 2-index tensors are accepted. "
    "R20b: exponent lowering (same object twice: exponent-2; two objects: each -1), all other "
    "objects multiplied back once, recursion on the new term, every term of the expression added "
    "once. R20c: the occurrence counter counts term.idx (exponent multiplicity and denominators "
    "included), pairs come from the unitary objects with exponent multiplicity, delta evaluation "
    "only on request on the whole result.")
ASSUMPTIONS = ["value preservation for orthogonal matrices is not decided beyond the per-step guards"]

FN = "simplify:simplify_unitary.simplify_term_unitary"


def r20a(ctx):
    rule = "R20a"
    fn = ctx.model.fn(FN)
    defs = Defs(fn)
    res = defs.resolve
    ds = [a for a in walk_fn(fn) if isinstance(a, ast.Assign) and U(a.targets[0]) == "delta" and call_name(a.value) == "KroneckerDelta"]
    ctx.floor(rule, "delta constructions in simplify_term_unitary", len(ds), 2)
    seen = set()
    for a in ds:
        args = [U(res(x)) for x in a.value.args]
        conds = conditions(a, resolve=res)
        # args are obj[i1].idx[p], obj[i2].idx[p]
        import re
        m = [re.fullmatch(r"(.+)\[(i1|i2)\]\.idx\[([01])\]", t) for t in args]
        if not all(m) or {m[0].group(2), m[1].group(2)} != {"i1", "i2"} or m[0].group(3) != m[1].group(3) \
                or m[0].group(1) != m[1].group(1):
            ctx.bad(rule, a, f"delta built from `{args}`; it must link the same position of the two unitary tensors", key="delta args")
            continue
        p = int(m[0].group(3))
        k = 1 - p
        seen.add(k)
        pre = m[0].group(1)
        x1, x2 = f"{pre}[i1].idx[{k}]", f"{pre}[i2].idx[{k}]"
        eq = (f"{x1} == {x2}", True) in conds or (f"{x2} == {x1}", True) in conds or \
            (f"{x1} is {x2}", True) in conds or (f"{x2} is {x1}", True) in conds
        ctx.check(rule, a, eq, f"delta over position {p} only if the tensors share the index at position {k}",
                  f"delta over position {p} is not dominated by equality of the indices at position {k}", key=f"shared {k}")
        tg = U(res(ast.Name("target", ast.Load())))
        ic = U(res(ast.Name("idx_counter", ast.Load())))
        nt = any((f"{x} in {tg}", False) in conds for x in (x1, x2))
        ctx.check(rule, a, nt, "shared index is not a target index",
                  "the shared index may be a target index (the sum over it does not exist)", key=f"target {k}")
        cnt = any((f"{ic}[{x}] == 2", True) in conds or (f"2 == {ic}[{x}]", True) in conds for x in (x1, x2))
        ctx.check(rule, a, cnt, "shared index occurs exactly twice in the term",
                  "the shared index may occur on other objects (idx_counter == 2 not required)", key=f"counter {k}")
    ctx.check(rule, fn, seen == {0, 1}, "first- and second-position contractions handled", f"positions handled: {sorted(seen)}", key="both positions")
    ra = [n for n in walk_fn(fn) if isinstance(n, ast.Raise)]
    ok = any(("any((len(obj[i].idx) != 2 for i in unitary_tensors))", True) in conditions(n) for n in ra)
    ctx.check(rule, fn, ok, "only 2-index tensors accepted", "2-index check changed", key="two index")
    cont = [n for n in walk_fn(fn) if isinstance(n, ast.Continue) and isinstance(n._parent, ast.If) and n in n._parent.orelse]
    ctx.check(rule, fn, len(cont) == 1 and "combinations" in U(enclosing(cont[0], ast.For).iter),
              "pairs without a shared summed index are skipped", "skip branch changed", key="skip")


def r20b(ctx):
    rule = "R20b"
    fn = ctx.model.fn(FN)
    muls = [n for n in walk_fn(fn) if isinstance(n, ast.AugAssign) and U(n.target) == "new_term" and isinstance(n.op, ast.Mult)]
    tab = {}
    for m in muls:
        cs = conditions(m)
        v = U(m.value).replace(" ", "")
        if ("i1 == i2", True) in cs:
            tab.setdefault("same", []).append(v)
        elif ("i1 == i2", False) in cs and "Pow" in v:
            tab.setdefault("two", []).append(v)
        else:
            tab.setdefault("rest", []).append((v, sorted(t for t, pol in cs if not pol and "==" in t)))
    ctx.check(rule, fn, tab.get("same") == ["Pow(base,exponent-2)"], "same object twice: exponent lowered by 2",
              f"same-object branch multiplies {tab.get('same')}", key="same object")
    ctx.check(rule, fn, sorted(tab.get("two", [])) == ["Pow(b1,exponent1-1)", "Pow(b2,exponent2-1)"], "two objects: each exponent lowered by 1",
              f"two-object branch multiplies {tab.get('two')}", key="two objects")
    be = {U(a.targets[0]): U(a.value) for a in walk_fn(fn) if isinstance(a, ast.Assign) and "base_and_exponent" in U(a.value)}
    ctx.check(rule, fn, be == {"(base, exponent)": "obj[i1].base_and_exponent", "(b1, exponent1)": "obj[i1].base_and_exponent",
                               "(b2, exponent2)": "obj[i2].base_and_exponent"}, "bases/exponents of the paired objects",
              f"{be}", key="bases")
    rest = tab.get("rest", [])
    ok = len(rest) == 1 and rest[0][0] == "o" and {"i == i1", "i == i2"} <= set(rest[0][1]) or \
        (len(rest) == 1 and rest[0][0] == "o" and ("i == i1 or i == i2", False) in conditions(
            [m for m in muls if U(m.value) == "o"][0]))
    ctx.check(rule, fn, ok, "all other objects multiplied back once", f"remaining objects: {rest}", key="rest")
    nt = [a for a in walk_fn(fn) if isinstance(a, ast.Assign) and U(a.targets[0]) == "new_term"]
    ctx.check(rule, fn, len(nt) == 1 and U(nt[0].value) == "e.Expr(delta, **term.assumptions)", "new term starts with the delta",
              "new term start changed", key="start")
    rec = [r for r in common.returns_of(fn) if isinstance(r.value, ast.Call) and call_name(r.value) == "simplify_term_unitary"]
    ctx.check(rule, fn, len(rec) == 1 and U(rec[0].value.args[0]) == "new_term.terms[0]", "recursion on the new term",
              "recursion changed", key="recursion")
    top = ctx.model.fn("simplify:simplify_unitary")
    lp = [n for n in walk_fn(top, nested=False) if isinstance(n, ast.For) and U(n.iter) == "expr.terms"]
    ok = len(lp) == 1 and len(lp[0].body) == 1 and U(lp[0].body[0]) == f"res += simplify_term_unitary({U(lp[0].target)})"
    ctx.check(rule, top, ok, "every term simplified and added once", "term loop changed", key="term loop")
    few = [r for r in common.returns_of(fn) if ("len(unitary_tensors) < 2", True) in conditions(r)]
    ctx.check(rule, fn, len(few) == 1 and U(few[0].value) == "term", "fewer than two unitary tensors: unchanged", "shortcut changed", key="few")
    last = common.returns_of(fn)[-1]
    ctx.check(rule, fn, U(last.value) == "term", "no simplification found: unchanged", "fallback changed", key="fallback")


def r20c(ctx):
    rule = "R20c"
    fn = ctx.model.fn(FN)
    a = {U(x.targets[0]): U(x.value) for x in walk_fn(fn) if isinstance(x, ast.Assign)}
    ctx.check(rule, fn, a.get("idx_counter") == "Counter(term.idx)", "occurrences counted over term.idx", f"counter is {a.get('idx_counter')}",
              key="counter")
    ctx.check(rule, fn, a.get("target") == "term.target", "targets of the term", f"target is {a.get('target')}", key="target")
    ctx.check(rule, fn, a.get("unitary_tensors") == "[i for i, o in enumerate(obj) if o.name == t_name for _ in range(o.exponent)]",
              "unitary objects by exact name, exponent-many times", f"{a.get('unitary_tensors')}", key="unitary list")
    ctx.check(rule, fn, a.get("idx1") == "obj[i1].idx" and a.get("idx2") == "obj[i2].idx" and a.get("obj") == "term.objects",
              "indices of the paired objects", "index sources changed", key="idx sources")
    lp = [n for n in walk_fn(fn) if isinstance(n, ast.For) and "combinations" in U(n.iter)]
    ctx.check(rule, fn, len(lp) == 1 and U(lp[0].iter) == "combinations(unitary_tensors, 2)" and U(lp[0].target) == "(i1, i2)",
              "all pairs of unitary tensors", "pair enumeration changed", key="pairs")
    top = ctx.model.fn("simplify:simplify_unitary")
    ev = [c for c in calls_in(top, nested=False) if call_name(c) == "evaluate_deltas"]
    ok = len(ev) == 1 and U(ev[0].args[0]) == "res.sympy" and ("evaluate_deltas", True) in conditions(ev[0]) and len(ev[0].args) == 1 \
        and not ev[0].keywords
    ctx.check(rule, top, ok, "delta evaluation only on request (Einstein targets of the result)", "delta evaluation changed", key="evaluate")
    ic = ctx.model.fn("expr_container:Term._idx_counter")
    a = {U(x.targets[0]): U(x.value) for x in walk_fn(ic) if isinstance(x, ast.Assign)}
    ctx.check(rule, ic, a.get("n") == "abs(o.exponent)" and a.get("idx[s]") == "n - 1", "index counter: |exponent| occurrences per object",
              f"_idx_counter: {a}", key="idx counter")
    ti = ctx.model.fn("expr_container:Term.idx")
    r = common.returns_of(ti)
    ctx.check(rule, ti, U(r[0].value) == "tuple((s for s, n in self._idx_counter for _ in range(n + 1)))", "term.idx lists an index once per occurrence",
              "Term.idx changed", key="term idx")


def run(ctx):
    for r, f in (("R20a", r20a), ("R20b", r20b), ("R20c", r20c)):
        if ctx.want(r):
            f(ctx)
