"""C19 history, hash seed and configuration independence (structural clauses)."""
from __future__ import annotations

import ast

from ..model import (AnalysisError, U, Defs, FuncNode, calls_in, call_name, walk_fn, kwarg, enclosing,
                     enclosing_stmt, parents, short)
from ..pathcond import conditions
from . import common
from . import c08
from .deriv import reaching_assignments

EXPLANATION = (
    "R19a: no hash()/id() inside any function used as a sort key; every iteration over a set (set(...), "
    "set displays, .atoms(...), set operators) is followed to its consumers: membership/any/all/len/"
    "sum/sorted/set/dict-keyed stores/commutative Add/Mul/same-origin zip are order-insensitive, "
    "anything else must be a frozen, reasoned exception, otherwise it is reported. R19g: the canonical "
    "sort key starts with space, spin, number and letter of the name before any tie-break. R19b (=D4): "
    "wavefunctions, overlaps and norm factors are uncached and draw their summation indices from "
    "get_generic_indices; cached derivation methods request named indices only for the caller-supplied "
    "target strings; multiplicative accumulation of a method in a loop only for the uncached methods "
    "(+ the frozen s_root case whose index argument advances). R19c: no literal equal to a TensorNames "
    "default reaches a tensor constructor name or a comparison with .name. R19d: TensorNames is a "
    "frozen, slotted singleton built once from the JSON file; no attribute store on it. R19e: index "
    "registry ownership and pairing (R08c/R08d). R19f: values handed out by cached_member/"
    "cached_property whose return expression is a mutable container are never mutated by a caller.")
ASSUMPTIONS = [
    "equality of text across histories needs executions and is not decided",
    "set iteration over small ints is treated as seed independent (CPython int hashing)",
]

ORDER_FREE_CALLS = {"sorted", "set", "frozenset", "any", "all", "sum", "len", "min", "max", "Mul", "Add", "Counter"}
# (function, iterated text) -> reason
SET_ITER_FROZEN = {
    ("func:evaluate_deltas", "obj.atoms(Index)"):
        "occurrence counter; the derived target list is only used for membership tests",
    ("spatial_orbitals:integrate_spin", "term_indices"):
        "derived lists feed set.add / all 2^n assignments, each contributing a commutative `+=`",
    ("spatial_orbitals:transform_to_spatial_orbitals", "idx"):
        "old/new lists are built from one iteration (same-origin zip) and applied through order_substitutions",
    ("tensor_names:TensorNames.rename_tensors", "expr.sympy.atoms(Symbol)"):
        "renames of distinct default names to distinct configured names commute",
    ("generate_code.optimize_contractions:_group_objects", "positions"):
        "set of small ints: CPython iterates them independently of the hash seed",
    ("factor_intermediates:_factor_long_intermediate", "set(itmd[itmd_i].expr.idx)"):
        "derived tuple is only scanned with any(.. in ..) and printed in an error message",
    ("factor_intermediates:_factor_short_intermediate", "set(itmd.expr.idx)"):
        "derived tuple is only scanned with any(.. in ..) and printed in an error message",
}
CACHE_DECOS = ("cached_member", "cached_property")
MUTATORS = {"append", "extend", "update", "pop", "clear", "add", "remove", "insert", "sort", "reverse", "setdefault",
            "popitem", "discard", "expand", "subs", "doit", "make_real", "substitute_contracted", "substitute_with_generic",
            "factor", "set_sym_tensors", "set_antisym_tensors", "set_target_idx", "rename_tensor", "diagonalize_fock",
            "block_diagonalize_fock", "expand_antisym_eri", "use_symbolic_denominators", "use_explicit_denominators",
            "expand_intermediates", "permute"}
DEFAULT_NAMES = None


def is_set_expr(n):
    if isinstance(n, (ast.Set, ast.SetComp)):
        return True
    if isinstance(n, ast.Call):
        if isinstance(n.func, ast.Name) and n.func.id in ("set", "frozenset"):
            return True
        if call_name(n) in ("atoms", "intersection", "union", "difference", "symmetric_difference"):
            return True
    if isinstance(n, ast.BinOp) and isinstance(n.op, (ast.BitAnd, ast.BitOr, ast.BitXor)):
        return is_set_expr(n.left) or is_set_expr(n.right)
    return False


def _set_iterations(fn):
    out = []
    for n in walk_fn(fn):
        its = []
        if isinstance(n, ast.For):
            its.append((n.iter, n))
        elif isinstance(n, ast.comprehension):
            its.append((n.iter, n))
        for it, node in its:
            if is_set_expr(it):
                out.append((it, node))
            elif isinstance(it, ast.Name):
                st = enclosing_stmt(it)
                if st is None:
                    continue
                live = reaching_assignments(fn, it.id, st)
                if live and any(is_set_expr(a.value) for a in live):
                    out.append((it, node))
    return out


def _benign_consumer(node) -> str | None:
    """order-insensitive use of the sequence produced by a comprehension"""
    if isinstance(node, ast.comprehension):
        comp = node._parent
        if isinstance(comp, (ast.SetComp, ast.DictComp)):
            return "builds a set/dict"
        p = comp._parent
        hops = 0
        while isinstance(p, (ast.Starred,)) or (isinstance(p, ast.Call) and call_name(p) in ("tuple", "list") and hops < 2):
            p = p._parent
            hops += 1
        if isinstance(p, ast.Call) and call_name(p) in ORDER_FREE_CALLS:
            return f"consumed by {call_name(p)}(...)"
        if isinstance(p, ast.keyword) and isinstance(p._parent, ast.Call) and call_name(p._parent) in ORDER_FREE_CALLS:
            return f"consumed by {call_name(p._parent)}(...)"
        return None
    # for loop: body only stores keyed by the element / adds to sets / counts
    ok = True
    for s in ast.walk(ast.Module(body=node.body, type_ignores=[])):
        if isinstance(s, ast.Call) and call_name(s) in ("append", "extend", "insert") and isinstance(s.func, ast.Attribute):
            ok = False
        if isinstance(s, (ast.Return, ast.Yield)):
            ok = False
        if isinstance(s, ast.AugAssign) and isinstance(s.target, ast.Name) and not isinstance(s.op, (ast.Add, ast.Mult)):
            ok = False
    return "loop body only adds to sets / keyed stores / commutative accumulation" if ok else None


def r19a(ctx):
    rule = "R19a"
    # (1) hash / id inside sort keys
    keyfuncs = {}
    n_keys = 0
    for ref, fn in ctx.model.all_functions():
        for c in calls_in(fn, nested=False):
            k = kwarg(c, "key")
            if k is None or call_name(c) not in ("sorted", "sort", "min", "max", "_sort_anticommuting_fermions"):
                continue
            n_keys += 1
            if isinstance(k, ast.Lambda):
                bad = [x for x in ast.walk(k.body) if isinstance(x, ast.Call) and isinstance(x.func, ast.Name) and x.func.id in ("hash", "id")]
                ctx.check(rule, k, not bad, "lambda sort key free of hash()/id()",
                          f"sort key `{short(k, 60)}` uses hash()/id(): the order depends on the interpreter's hash seed / addresses",
                          fn=ref, key=f"lambda key {short(k, 40)}")
                for x in ast.walk(k.body):
                    if isinstance(x, ast.Call) and isinstance(x.func, ast.Name):
                        keyfuncs.setdefault(x.func.id, []).append(ref)
            elif isinstance(k, ast.Name):
                keyfuncs.setdefault(k.id, []).append(ref)
    ctx.floor(rule, "sort/min/max sites with a key", n_keys, 20)
    for name, users in sorted(keyfuncs.items()):
        for mod in ctx.model.modules.values():
            f = mod.functions.get(name)
            if f is None:
                continue
            bad = [x for x in ast.walk(f) if isinstance(x, ast.Call) and isinstance(x.func, ast.Name) and x.func.id in ("hash", "id")]
            for b in bad:
                ctx.bad(rule, b, f"`{U(b)}` inside `{name}`, which is used as sort key at {len(users)} site(s): the canonical "
                        "order of tied elements (and with it the printed text and term count) depends on PYTHONHASHSEED",
                        fn=f"{mod.name}:{name}", key=f"{U(b)} in key {name}")
            if not bad:
                ctx.ok(rule, f, f"key function {name} free of hash()/id() ({len(users)} users)", fn=f"{mod.name}:{name}")
    # (2) set iteration
    n_sites = 0
    for ref, fn in ctx.model.all_functions():
        if getattr(fn, "_fn", None) is not None:
            continue
        for it, node in _set_iterations(fn):
            owner = enclosing(it, FuncNode)
            oref = f"{ref.split(':')[0]}:{owner._qual}" if owner is not None else ref
            n_sites += 1
            why = _benign_consumer(node)
            frozen = SET_ITER_FROZEN.get((oref, U(it))) or SET_ITER_FROZEN.get((ref, U(it)))
            if why:
                ctx.ok(rule, it, f"set iteration `{short(it, 40)}`: {why}", fn=oref, key=f"{oref} {U(it)}")
            elif frozen:
                ctx.ok(rule, it, f"set iteration `{short(it, 40)}`: triaged - {frozen}", fn=oref, key=f"{oref} {U(it)}")
            else:
                ctx.bad(rule, it, f"iteration over the set `{short(it, 50)}` builds an ordered result "
                        f"(`{short(enclosing_stmt(it), 80)}`): its order depends on the hash seed", fn=oref,
                        key=f"set iteration {U(it)[:50]}")
    ctx.floor(rule, "set iteration sites examined", n_sites, 15)


def r19g(ctx):
    rule = "R19g"
    fn = ctx.model.fn("indices:sort_idx_canonical")
    rets = common.returns_of(fn)
    idx_ret = [r for r in rets if ("isinstance(idx, Index)", True) in conditions(r)]
    ok = len(idx_ret) == 1 and isinstance(idx_ret[0].value, ast.Tuple)
    comps = [U(e) for e in idx_ret[0].value.elts] if ok else []
    want = ["idx.space[0]", "idx.spin", "int(idx.name[1:]) if idx.name[1:] else 0", "idx.name[0]"]
    ctx.check(rule, fn, comps[:4] == want, "key = (space, spin, number, letter, tie-break)",
              f"canonical key starts with {comps[:4]}; expected {want} before any tie-break", key="key prefix")
    ctx.check(rule, fn, len(comps) >= 4 and all("hash(" not in c and "id(" not in c for c in comps[:4]), "identity components are hash free",
              "hash in the identity part of the key", key="prefix hash free")


# ---------------------------------------------------------------------- D4


def d4(ctx):
    rule = "R19b"
    gs = "groundstate:GroundState."
    for m in ("psi", "overlap", "norm_factor"):
        fn = ctx.model.fn(gs + m)
        ctx.check(rule, fn, not any(d in CACHE_DECOS for d in common.decorators(fn)), f"{m} is not cached",
                  f"GroundState.{m} is cached: repeated factors in one product would share their contracted indices",
                  key=f"{m} uncached")
        lit = [c for c in calls_in(fn) if call_name(c) in ("get_symbols", "get_indices") and c.args and isinstance(c.args[0], ast.Constant)]
        ctx.check(rule, fn, not lit, f"{m}: no literally named summation index", f"{m} requests literally named indices "
                  f"`{U(lit[0]) if lit else ''}`", key=f"{m} literal")
    psi = ctx.model.fn(gs + "psi")
    gi = [c for c in calls_in(psi) if call_name(c) == "get_generic_indices"]
    ctx.check(rule, psi, len(gi) == 1, "psi draws its summation indices from get_generic_indices", "psi index source changed", key="psi generic")
    # norm_factor -> overlap -> psi chain is uncached all the way
    nf = ctx.model.fn(gs + "norm_factor")
    ctx.check(rule, nf, any(call_name(c) == "overlap" for c in calls_in(nf)), "norm_factor built from (uncached) overlaps",
              "norm_factor no longer built from overlap", key="norm chain")
    ov = ctx.model.fn(gs + "overlap")
    ctx.check(rule, ov, sum(1 for c in calls_in(ov) if call_name(c) == "psi") == 2, "overlap built from fresh wavefunctions",
              "overlap no longer requests its wavefunctions itself", key="overlap chain")
    # multiplicative accumulation of one method in a loop
    n = 0
    for mod in ("groundstate", "intermediate_states", "secular_matrix", "properties"):
        m = ctx.model.module(mod)
        for q, fn in m.functions.items():
            for a in walk_fn(fn, nested=False):
                if isinstance(a, ast.AugAssign) and isinstance(a.op, ast.Mult) and isinstance(a.value, ast.Call) \
                        and isinstance(a.value.func, ast.Attribute) and U(a.value.func.value).startswith("self") \
                        and enclosing(a, (ast.For, ast.While)) is not None:
                    n += 1
                    callee = call_name(a.value)
                    if callee in ("overlap",):
                        ctx.ok(rule, a, f"{q}: repeated factor `{callee}` is uncached", fn=f"{mod}:{q}")
                    elif callee == "overlap_precursor" and q.endswith("s_root"):
                        lp = enclosing(a, ast.For)
                        adv = any(isinstance(s, ast.Delete) and U(s.targets[0]) == "relevant_idx[0]" for s in lp.body)
                        ctx.check(rule, a, adv and "relevant_idx" in U(kwarg(a.value, "indices", 2)),
                                  "s_root: cached factor requested with index strings that advance every iteration",
                                  "s_root multiplies a cached overlap_precursor with non-advancing indices", fn=f"{mod}:{q}",
                                  key="s_root advance")
                    else:
                        ctx.bad(rule, a, f"{q}: `{callee}` is multiplied repeatedly in a loop; unless it is uncached (psi, overlap, "
                                "norm_factor) the factors share their contracted indices", fn=f"{mod}:{q}", key=f"{q} repeated {callee}")
    ctx.floor(rule, "multiplicative accumulations in the derivation layer", n, 0)
    # the repeated factors are requested afresh for every element of a Taylor term
    from . import c02
    c02.taylor_consumer(ctx, rule, "groundstate:GroundState.norm_factor", "overlap")
    c02.taylor_consumer(ctx, rule, "intermediate_states:IntermediateStates.s_root", "overlap_precursor")
    # cached derivation methods: named indices only for the caller-supplied strings
    for mod in ("groundstate", "intermediate_states", "secular_matrix", "properties"):
        m = ctx.model.module(mod)
        for q, fn in m.functions.items():
            if not any(d in CACHE_DECOS for d in common.decorators(fn)):
                continue
            params = {a.arg for a in fn.args.args}
            for c in calls_in(fn):
                if call_name(c) in ("get_indices", "get_symbols") and c.args:
                    a0 = c.args[0]
                    src = U(a0)
                    ok = (isinstance(a0, ast.Name) and (a0.id in params or a0.id in ("idx", "mvp_idx", "left_idx", "right_idx", "idx_pre",
                                                                                     "idx_isr", "indices")))
                    ctx.check(rule, c, ok and not isinstance(a0, ast.Constant), f"{q}: named indices only for the supplied strings",
                              f"{q} (cached) requests indices `{src}` that are not the caller-supplied target strings: every later "
                              "call returns an expression over the same index objects", fn=f"{mod}:{q}", key=f"{q} named {src}")
    # operators: literal p q r s only in the Hamiltonians, generic in Operators.operator
    op = ctx.model.fn("operators:Operators.operator")
    ctx.check(rule, op, any(call_name(c) == "get_generic_indices" for c in calls_in(op)) and
              not any(call_name(c) == "get_indices" for c in calls_in(op)), "Operators.operator uses generic indices",
              "Operators.operator uses literally named indices although it is cached", key="operator generic")
    # no product with two identical calls of a cached method
    cached = set()
    for mod in ("groundstate", "intermediate_states", "secular_matrix", "properties", "operators"):
        for q, fn in ctx.model.module(mod).functions.items():
            if any(d in CACHE_DECOS for d in common.decorators(fn)):
                cached.add(q.split(".")[-1])
    from .deriv import flatten_mult
    n_prod = 0
    for mod in ("groundstate", "intermediate_states", "secular_matrix", "properties"):
        for q, fn in ctx.model.module(mod).functions.items():
            for b in walk_fn(fn, nested=False):
                if isinstance(b, ast.BinOp) and isinstance(b.op, ast.Mult) and not (
                        isinstance(b._parent, ast.BinOp) and isinstance(b._parent.op, ast.Mult)):
                    fs = [f for f in flatten_mult(b) if isinstance(f, ast.Call) and call_name(f) in cached]
                    n_prod += 1
                    texts = [U(f) for f in fs]
                    dup = [t for t in set(texts) if texts.count(t) > 1]
                    ctx.check(rule, b, not dup, f"{q}: no cached factor twice with identical arguments",
                              f"{q}: product contains the cached call `{dup[0][:70] if dup else ''}` twice: both factors are the "
                              "same object with the same contracted indices", fn=f"{mod}:{q}", key=f"{q} dup {dup[0][:40] if dup else ''}")
    ctx.floor(rule, "products examined for duplicated cached factors", n_prod, 16)


# ---------------------------------------------------------------------- R19c / R19d


def _defaults(ctx):
    cls = ctx.model.cls("tensor_names:TensorNames")
    out = {}
    for n in cls.body:
        if isinstance(n, ast.AnnAssign) and isinstance(n.value, ast.Constant):
            out[U(n.target)] = n.value.value
    if len(out) < 8:
        raise AnalysisError("TensorNames defaults not found")
    return out


def r19c(ctx):
    rule = "R19c"
    defaults = _defaults(ctx)
    vals = set(defaults.values())
    n = 0
    for mname, m in ctx.model.modules.items():
        ctx.model.used_modules.add(mname)
        if mname == "tensor_names":
            continue
        for node in ast.walk(m.tree):
            if isinstance(node, ast.Call) and isinstance(node.func, ast.Name) and node.func.id in c18_ctors() and node.args:
                n += 1
                a0 = node.args[0]
                lit = a0.value if isinstance(a0, ast.Constant) and isinstance(a0.value, str) else None
                if isinstance(a0, ast.JoinedStr) and a0.values and isinstance(a0.values[0], ast.Constant):
                    lit = a0.values[0].value.rstrip("0123456789") or None
                ctx.check(rule, node, not (lit in vals), "tensor name not a hard-coded default",
                          f"`{short(node, 70)}` hard-codes the default name '{lit}' instead of tensor_names.*; with another "
                          "configuration the tensor is no longer recognised", key=f"ctor literal {lit}")
            if isinstance(node, ast.Compare) and len(node.ops) == 1 and isinstance(node.ops[0], (ast.Eq, ast.NotEq, ast.In, ast.NotIn)):
                sides = [node.left] + node.comparators
                names = [s for s in sides if (isinstance(s, ast.Attribute) and s.attr == "name") or (isinstance(s, ast.Name) and s.id in ("name", "t_name"))]
                lits = []
                for s in sides:
                    if isinstance(s, ast.Constant) and isinstance(s.value, str):
                        lits.append(s.value)
                    elif isinstance(s, (ast.List, ast.Tuple, ast.Set)):
                        lits += [e.value for e in s.elts if isinstance(e, ast.Constant) and isinstance(e.value, str)]
                if names and lits:
                    n += 1
                    bad = [x for x in lits if x in vals and x not in ("a",)]
                    ctx.check(rule, node, not bad, "name comparison not against a hard-coded default",
                              f"`{U(node)}` compares a tensor name with the hard-coded default {bad}", key=f"cmp literal {bad}")
    ctx.floor(rule, "constructor/comparison sites examined", n, 40)
    # positive fixture
    fix = ast.parse("x = AntiSymmetricTensor('V', u, l)")
    c = fix.body[0].value
    if not (isinstance(c.args[0], ast.Constant) and c.args[0].value in vals):
        raise AnalysisError("R19c fixture")


def c18_ctors():
    return ("AntiSymmetricTensor", "SymmetricTensor", "Amplitude", "NonSymmetricTensor")


def r19h(ctx):
    """look-ups in the registry of intermediates (keyed by default names) use default names"""
    rule = "R19c"
    n = 0
    for ref, fn in ctx.model.all_functions():
        for c in calls_in(fn, nested=False):
            if call_name(c) == "get" and U(c.func.value).endswith(".available") and c.args:
                n += 1
                a0 = c.args[0]
                ok = isinstance(a0, ast.Call) and call_name(a0) == "longname" and (
                    (a0.args and U(a0.args[0]) == "True") or U(kwarg(a0, "use_default_names") or ast.Constant(None)) == "True")
                ctx.check(rule, c, ok, f"{ref.split(':')[1]}: intermediates looked up by their default long name",
                          f"`{short(c, 70)}`: the registry of intermediates is keyed by default names; looking up the configured "
                          "long name misses every intermediate as soon as tensor_names.json renames amplitudes/densities",
                          fn=ref, key=f"lookup {ref}")
    ctx.floor(rule, "registry look-ups", n, 3)


def r19d(ctx):
    rule = "R19d"
    cls = ctx.model.cls("tensor_names:TensorNames")
    deco = " ".join(U(d) for d in cls.decorator_list)
    ctx.check(rule, cls, "dataclass" in deco and "frozen=True" in deco and "slots=True" in deco, "TensorNames is a frozen slotted dataclass",
              f"TensorNames decorator is `{deco}`", key="frozen")
    ctx.check(rule, cls, any(U(k.value) == "Singleton" for k in cls.keywords if k.arg == "metaclass"), "TensorNames is a singleton",
              "TensorNames lost the Singleton metaclass", key="singleton")
    m = ctx.model.module("tensor_names")
    inst = [n for n in m.tree.body if isinstance(n, ast.Assign) and U(n.targets[0]) == "tensor_names"]
    ctx.check(rule, m.tree, len(inst) == 1 and U(inst[0].value) == "TensorNames._from_config()", "one instance built from the config file",
              "module level instance changed", key="instance")
    fc = ctx.model.fn("tensor_names:TensorNames._from_config")
    r = common.returns_of(fc)
    ctx.check(rule, fc, U(r[0].value) == "TensorNames(**tensor_names)", "all fields taken from the JSON file", "config loading changed",
              key="from config")
    n = 0
    for mname, mod in ctx.model.modules.items():
        for node in ast.walk(mod.tree):
            tgt = []
            if isinstance(node, ast.Assign):
                tgt = node.targets
            elif isinstance(node, (ast.AugAssign, ast.AnnAssign)):
                tgt = [node.target]
            for t in tgt:
                if isinstance(t, ast.Attribute) and U(t.value) in ("tensor_names", "self") and mname == "tensor_names" and U(t.value) == "tensor_names":
                    ctx.bad(rule, node, "attribute store on the TensorNames instance", key=f"store {U(t)}")
                if isinstance(t, ast.Attribute) and U(t.value) == "tensor_names":
                    n += 1
                    ctx.bad(rule, node, f"`{short(node, 60)}` changes a configured tensor name at run time", key=f"store {U(t)}")
            if isinstance(node, ast.Call) and U(node.func) in ("object.__setattr__", "setattr") and node.args and "tensor_names" in U(node.args[0]):
                ctx.bad(rule, node, "setattr on the TensorNames instance", key="setattr")
    ctx.ok(rule, None, "no attribute store on tensor_names in the package", fn="package", key="no store")
    df = ctx.model.fn("tensor_names:TensorNames.defaults")
    r = common.returns_of(df)
    ctx.check(rule, df, U(r[0].value) == "{field.name: field.default for field in fields(TensorNames)}", "defaults read from the field table",
              "defaults() changed", key="defaults")


# ---------------------------------------------------------------------- R19f


def _mutable_return(fn):
    for r in common.returns_of(fn):
        v = r.value
        if isinstance(v, (ast.Dict, ast.List, ast.Set, ast.DictComp, ast.ListComp, ast.SetComp)):
            return True
        if isinstance(v, ast.Call) and call_name(v) in ("Expr", "LazyTermMap", "dict", "list", "set", "defaultdict"):
            return True
        if isinstance(v, ast.Name):
            for a in common.assigns_to(fn, v.id):
                val = getattr(a, "value", None)
                if isinstance(val, (ast.Dict, ast.List, ast.Set, ast.DictComp, ast.ListComp, ast.SetComp)):
                    return True
                if isinstance(val, ast.Call) and call_name(val) in ("Expr", "LazyTermMap", "dict", "list", "set", "defaultdict"):
                    return True
    return False


def r19f(ctx):
    rule = "R19f"
    cached = {}
    for ref, fn in ctx.model.all_functions():
        decos = common.decorators(fn)
        if any(d in CACHE_DECOS for d in decos) and _mutable_return(fn):
            cached.setdefault(fn.name, []).append((ref, "cached_property" in decos))
    ctx.floor(rule, "cached methods with mutable results", len(cached), 6)
    n_sites = 0
    for ref, fn in ctx.model.all_functions():
        if getattr(fn, "_fn", None) is not None:
            continue
        for a in walk_fn(fn):
            if not (isinstance(a, ast.Assign) and len(a.targets) == 1 and isinstance(a.targets[0], ast.Name)):
                continue
            v = a.value
            src = None
            if isinstance(v, ast.Call) and isinstance(v.func, ast.Attribute) and v.func.attr in cached \
                    and not any(p for _, p in cached[v.func.attr]):
                src = v.func.attr
            elif isinstance(v, ast.Attribute) and v.attr in cached and any(p for _, p in cached[v.attr]):
                src = v.attr
            if src is None:
                continue
            name = a.targets[0].id
            n_sites += 1
            scope = enclosing(a, FuncNode) or fn
            bad = None
            for m in ast.walk(scope):
                if getattr(m, "lineno", 0) <= a.lineno:
                    continue
                if isinstance(m, ast.Call) and isinstance(m.func, ast.Attribute) and isinstance(m.func.value, ast.Name) \
                        and m.func.value.id == name and m.func.attr in MUTATORS:
                    bad = m
                if isinstance(m, (ast.Assign, ast.AugAssign)):
                    ts = m.targets if isinstance(m, ast.Assign) else [m.target]
                    for t in ts:
                        if isinstance(t, ast.Subscript) and isinstance(t.value, ast.Name) and t.value.id == name:
                            bad = m
                        if isinstance(m, ast.AugAssign) and isinstance(t, ast.Name) and t.id == name:
                            bad = m
                if isinstance(m, ast.Assign) and any(isinstance(t, ast.Name) and t.id == name for t in m.targets):
                    break  # re-bound
            ctx.check(rule, a, bad is None, f"{ref.split(':')[1]}: value of cached `{src}` only read",
                      f"`{name}` holds the object handed out by the cache of `{src}`; `{short(bad, 60) if bad is not None else ''}` "
                      "mutates it, so every later caller sees the modified value", fn=ref, key=f"{name} <- {src}")
    ctx.floor(rule, "uses of cached mutable values examined", n_sites, 5)
    # the derivation layer hands out immutable sympy objects
    for mod in ("groundstate", "intermediate_states", "secular_matrix", "properties"):
        for q, fn in ctx.model.module(mod).functions.items():
            if any(d in CACHE_DECOS for d in common.decorators(fn)):
                ctx.check(rule, fn, not _mutable_return(fn), f"{q}: cached result is an immutable sympy object",
                          f"{q} caches and returns a mutable container", fn=f"{mod}:{q}", key=f"{q} immutable")


def run(ctx):
    if ctx.want("R19g"):
        r19g(ctx)
    if ctx.want("R19c"):
        r19c(ctx)
        r19h(ctx)
    if ctx.want("R19d"):
        r19d(ctx)
    if ctx.want("R19e") or ctx.want("R08c"):
        c08.r08c(ctx)
    if ctx.want("R19a"):
        r19a(ctx)
    if ctx.want("R19b"):
        d4(ctx)
    if ctx.want("R08d"):
        c08.r08d(ctx)
    if ctx.want("R19f"):
        r19f(ctx)
