"""Shared derivation-skeleton rules D1 (order linearity), D2 (sandwich),
D3 (restriction-lifting provenance), D5 (operator dispatch) for the modules
groundstate / intermediate_states / secular_matrix / properties."""
from __future__ import annotations

import ast

from ..model import (AnalysisError, U, Defs, FuncNode, calls_in, call_name, walk_fn, kwarg,
                     enclosing, enclosing_stmt, parents, names_in, short)
from ..pathcond import conditions
from . import common

MODULES = ("groundstate", "intermediate_states", "secular_matrix", "properties")

# callee -> position of its ``order`` parameter (without self)
ORDER_CALLEES = {
    "psi": 0, "precursor": 0, "intermediate_state": 0, "norm_factor": 0, "energy": 0,
    "hamiltonian": 0, "operator": 0, "overlap": 0, "overlap_precursor": 0, "s_root": 0,
    "gen_term_orders": 0, "expectation_value": 0, "get_gs_wfn": 0,
}
# (function qualname) -> admissible non-zero min_order with the reason
MIN_ORDER_FROZEN = {
    "groundstate:GroundState.mp_amplitude": ("1", "E(0) t(n) is carried by the H0 denominator"),
    "groundstate:GroundState.expand_norm_factor": ("min_order", "Taylor series in x = sum_{i>=min} S(i)"),
    "intermediate_states:IntermediateStates.expand_S_taylor": ("min_order", "Taylor series in x"),
}


def stored(m):
    from ..model import stored_names
    if isinstance(m, ast.For):
        return stored_names(m.target)
    if isinstance(m, ast.Assign):
        out = set()
        for t in m.targets:
            out |= stored_names(t)
        return out
    return stored_names(m)


def functions_of(ctx, module):
    m = ctx.model.module(module)
    for q, f in m.functions.items():
        # nested helpers are analysed as part of their parent
        if getattr(f, "_fn", None) is None:
            yield f"{module}:{q}", f


def _own_order_param(fn):
    return "order" in [a.arg for a in fn.args.args]


# ---------------------------------------------------------------------------
# D1


class Split:
    def __init__(self, call, fnq, fn):
        self.call, self.fnq, self.fn = call, fnq, fn
        self.order = kwarg(call, "order", 0)
        self.length = kwarg(call, "term_length", 1)
        self.min_order = kwarg(call, "min_order", 2)
        self.loop = None          # the For that iterates the result
        self.comps: list[str] = []  # texts of the components inside the loop body
        self.taylor = False


def _memo_tables(fn):
    """local dicts whose values are psi(order=<key>) : name -> braket or None"""
    memo = {}
    for n in walk_fn(fn, nested=False):
        # wfn[o][bk] = self.psi(order=o, braket=bk)
        if isinstance(n, ast.Assign) and isinstance(n.targets[0], ast.Subscript) and isinstance(n.value, ast.Call) \
                and call_name(n.value) == "psi":
            t = n.targets[0]
            keys = []
            base = t
            while isinstance(base, ast.Subscript):
                keys.append(U(base.slice))
                base = base.value
            o = kwarg(n.value, "order", 0)
            if isinstance(base, ast.Name) and o is not None and U(o) in keys:
                memo[base.id] = ("keys", list(reversed(keys)), U(o), U(kwarg(n.value, "braket", 1)))
        if isinstance(n, ast.Assign) and isinstance(n.value, ast.DictComp) and isinstance(n.value.value, ast.Call) \
                and call_name(n.value.value) == "psi" and isinstance(n.targets[0], ast.Name):
            o = kwarg(n.value.value, "order", 0)
            if o is not None and U(o) == U(n.value.key):
                bk = kwarg(n.value.value, "braket", 1)
                memo[n.targets[0].id] = ("keys", [U(n.value.key)], U(o), U(bk))
    return memo


def _wrappers(fn):
    """local one-line wrappers `def get(o, bk): return memo[bk][o] if .. else self.gs.psi(order=o, braket=bk)`"""
    out = {}
    for n in fn.body if isinstance(fn, FuncNode) else []:
        pass
    for n in ast.walk(fn):
        if isinstance(n, FuncNode) and n is not fn:
            ps = [a.arg for a in n.args.args]
            calls = [c for c in calls_in(n) if call_name(c) == "psi"]
            if len(ps) == 2 and calls and all(U(kwarg(c, "order", 0)) == ps[0] and U(kwarg(c, "braket", 1)) == ps[1]
                                                for c in calls):
                out[n.name] = n
    return out


def find_splits(ctx, module):
    out = []
    for fnq, fn in functions_of(ctx, module):
        for c in calls_in(fn):
            if call_name(c) == "gen_term_orders":
                out.append(Split(c, fnq, fn))
    return out


def _loops_of(split):
    """The ``for`` statements that iterate the compositions."""
    c = split.call
    p = c._parent
    if isinstance(p, ast.For) and p.iter is c:
        return [p]
    st = enclosing_stmt(c)
    if isinstance(st, ast.Assign) and st.value is c and isinstance(st.targets[0], ast.Name):
        name = st.targets[0].id
        scope = enclosing(c, FuncNode)
        # the name must not be re-bound: every loop over it sees these compositions
        rebinds = [n for n in ast.walk(scope) if isinstance(n, ast.Assign) and n is not st
                   and any(U(t) == name for t in n.targets)]
        if rebinds and enclosing(c, (ast.For, ast.While)) is None:
            raise AnalysisError(f"D1: `{name}` is bound more than once")
        blk = enclosing(c, (ast.For, ast.While)) or scope
        return sorted([n for n in ast.walk(blk) if isinstance(n, ast.For) and U(n.iter) == name
                       and n.lineno > st.lineno], key=lambda n: n.lineno)
    return []


def d1(ctx, rule, module, floor):
    splits = find_splits(ctx, module)
    ctx.floor(rule, f"gen_term_orders call sites in {module}", len(splits), floor)
    for sp in splits:
        fn, fnq, c = sp.fn, sp.fnq, sp.call
        lab = f"{fnq.split(':')[1]}"
        # ---- min_order
        mo = U(sp.min_order) if sp.min_order is not None else "?"
        frozen = MIN_ORDER_FROZEN.get(fnq)
        ok = mo == "0" or (frozen is not None and mo == frozen[0])
        ctx.check(rule, c, ok, f"{lab}: min_order {mo} admissible",
                  f"{lab}: compositions start at min_order={mo}; contributions of lower order are lost "
                  "(only 0 is admissible here)", key=f"{lab} min_order {U(sp.order)}")
        # ---- Taylor builders: stored, consumed element-wise elsewhere
        st = enclosing_stmt(c)
        if fnq.endswith(("expand_norm_factor", "expand_S_taylor")):
            ctx.check(rule, c, U(sp.order) == "order" and U(sp.length) in ("exp",),
                      f"{lab}: k-fold products of total order `order`",
                      f"{lab}: Taylor term uses gen_term_orders(order={U(sp.order)}, term_length={U(sp.length)})",
                      key=f"{lab} taylor split")
            continue
        loops = _loops_of(sp)
        if not loops:
            raise AnalysisError(f"D1: result of `{short(c)}` in {fnq} is not iterated by a for loop")
        for loop in loops:
            _d1_loop(ctx, rule, sp, loop, lab, fn, fnq, c)


def _d1_loop(ctx, rule, sp, loop, lab, fn, fnq, c):
        lab = f"{lab}@{U(loop.target)}" if False else lab
        # ---- order provenance
        o = U(sp.order)
        outer_loops = [p for p in parents(loop) if isinstance(p, ast.For)]
        outer_comps = set()
        for ol in outer_loops:
            if isinstance(ol.target, ast.Tuple):
                outer_comps |= {U(e) for e in ol.target.elts}
            else:
                outer_comps |= {f"{U(ol.target)}[{i}]" for i in range(6)}
        for ol in outer_loops:
            for n in ast.walk(ol):
                if isinstance(n, ast.Assign) and len(n.targets) == 1 and isinstance(n.targets[0], ast.Name) \
                        and U(n.value) in outer_comps:
                    outer_comps.add(n.targets[0].id)
        ok = (o == "order" and _own_order_param(enclosing(c, FuncNode) or fn)) or o in outer_comps
        ctx.check(rule, c, ok, f"{lab}: split of `{o}`",
                  f"{lab}: the order that is split, `{o}`, is neither the function's own `order` nor an "
                  "unconsumed component of an enclosing split", key=f"{lab} order arg")
        # ---- components
        if isinstance(loop.target, ast.Tuple):
            comps = [U(e) for e in loop.target.elts]
        elif isinstance(sp.length, ast.Constant) and isinstance(sp.length.value, int):
            comps = [f"{U(loop.target)}[{i}]" for i in range(sp.length.value)]
        else:
            raise AnalysisError(f"D1: term_length of `{short(c)}` is not a literal")
        k = U(sp.length)
        ctx.check(rule, c, k == str(len(comps)), f"{lab}: term_length {k} == number of factors",
                  f"{lab}: term_length={k} but {len(comps)} components are unpacked", key=f"{lab} length")
        _consumption(ctx, rule, sp, loop, comps, lab)


def _consumption(ctx, rule, sp, loop, comps, lab):
    fn = enclosing(loop, FuncNode)
    memo = _memo_tables(fn)
    wrappers = _wrappers(fn)
    tvar = U(loop.target) if isinstance(loop.target, ast.Name) else None

    # local aliases `norm_order = split[0]`
    alias = {}
    for n in ast.walk(loop):
        if isinstance(n, ast.Assign) and len(n.targets) == 1 and isinstance(n.targets[0], ast.Name) \
                and U(n.value) in comps:
            others = [m for m in ast.walk(fn) if isinstance(m, (ast.Assign, ast.AugAssign, ast.For))
                      and m is not n and n.targets[0].id in stored(m)]
            if not others:
                alias[n.targets[0].id] = (U(n.value), n)

    def comp_of(n):
        if isinstance(n, ast.Name) and n.id in alias and isinstance(n.ctx, ast.Load):
            return alias[n.id][0]
        if isinstance(n, (ast.Name, ast.Subscript)) and U(n) in comps:
            st = enclosing_stmt(n)
            if any(st is a for _, a in alias.values()):
                return None  # the aliasing assignment itself is not a use
            # a subscript component `term[0]` contains the Name `term`: only the
            # outermost match counts
            p = n._parent
            if isinstance(p, ast.Subscript) and p.value is n and U(p) in comps:
                return None
            return U(n)
        return None

    def classify(n):
        """'consume' | 'guard' | 'ignore' | 'unknown' for one occurrence node."""
        p = n._parent
        # argument of a call
        if isinstance(p, ast.keyword):
            call = p._parent
            if p.arg == "order" and call_name(call) in ORDER_CALLEES:
                return "consume"
            return "unknown"
        if isinstance(p, ast.Call) and n in p.args:
            name = call_name(p)
            if name in wrappers and p.args.index(n) == 0:
                return "consume"
            if name in ORDER_CALLEES and p.args.index(n) == ORDER_CALLEES[name]:
                return "consume"
            return "unknown"
        if isinstance(p, ast.Subscript) and p.slice is n:
            base = p
            while isinstance(base, ast.Subscript):
                base = base.value
            if isinstance(base, ast.Name) and base.id in memo:
                return "consume"
            return "unknown"
        if isinstance(p, ast.FormattedValue):
            js = p._parent
            st = enclosing_stmt(js)
            if isinstance(st, ast.Assign) and U(st.targets[0]) == "name":
                return "consume"
            return "ignore"  # logging
        q = n
        while q is not None and not isinstance(q, ast.stmt):
            if isinstance(q, ast.Compare):
                return "guard"
            q = q._parent
        return "unknown"

    def is_event(n):
        return comp_of(n) is not None and classify(n) in ("consume", "unknown")
    # whole-variable uses other than subscripts (e.g. passing `term` itself on)
    if tvar is not None:
        for n in ast.walk(loop):
            if isinstance(n, ast.Name) and n.id == tvar and isinstance(n.ctx, ast.Load):
                p = n._parent
                if not (isinstance(p, ast.Subscript) and p.value is n):
                    in_test = any(isinstance(q, ast.Compare) for q in parents(n)
                                  if not isinstance(q, ast.stmt)) and isinstance(enclosing_stmt(n), ast.If)
                    if not isinstance(p, ast.FormattedValue) and not in_test:
                        raise AnalysisError(f"D1: loop variable `{tvar}` of {lab} used as a whole: `{short(enclosing_stmt(n))}`")
    paths = common.enum_paths(loop.body, is_event)
    for p in paths:
        if p.exit in ("raise",):
            continue
        neg = [U(t) for t, pol in p.decisions if not pol]
        if any(t.endswith("== 'bra'") and (t[:-len("'bra'")] + "'ket'") in neg for t in neg):
            continue  # neither bra nor ket: excluded by validate_input
        counts = {c: 0 for c in comps}
        unknown = []
        for e in p.events:
            in_loop = isinstance(e, tuple)
            node = e[1] if in_loop else e
            c = comp_of(node)
            if classify(node) == "unknown":
                unknown.append(node)
                continue
            counts[c] += 2 if in_loop else 1
        desc = common.path_desc(p)
        for u in unknown:
            ctx.bad(rule, u, f"{lab}: order component `{U(u)}` is used in `{short(enclosing_stmt(u), 80)}` which is "
                    "not an order-parametrised building block", key=f"{lab} unknown use {U(u)}")
        if p.exit in ("continue", "break"):
            # a skipped combination: admissible when a factor vanishes / amplitude absent
            last = p.decisions[-1] if p.decisions else None
            t = U(last[0]) if last else ""
            ok = last is not None and last[1] and (
                t.endswith(" is S.Zero") or t.endswith(" == 0") or "n_ov" in t)
            ctx.check(rule, p.exit_node, ok, f"{lab}: combination skipped because a factor vanishes",
                      f"{lab}: an order combination is skipped under `{t}`, which is not a vanishing-factor test",
                      key=f"{lab} skip {t}")
            # consumed at most once before the skip
            over = [c for c, n in counts.items() if n > 1]
            if over:
                ctx.bad(rule, loop, f"{lab}: order component(s) {over} consumed more than once", key=f"{lab} over {over}")
            continue
        bad = {c: n for c, n in counts.items() if n != 1}
        ctx.check(rule, loop, not bad,
                  f"{lab}: path [{desc}] consumes each of {comps} exactly once",
                  f"{lab}: on path [{desc}] the order components are consumed {counts} times; each must enter "
                  "exactly one factor (orders must add up to the requested order)",
                  key=f"{lab} linear {sorted(bad.items())} on {desc}")


# ---------------------------------------------------------------------------
# D2


BRAKET_POS = {"psi": 1, "precursor": 2, "intermediate_state": 2, "get_gs_wfn": 1}
OP_NAMES = {"hamiltonian", "operator", "h0", "h1", "mp_h0", "mp_h1", "re_h0", "re_h1"}


class Classifier:
    def __init__(self, fn):
        self.fn = fn
        self.defs = Defs(fn)
        self.memo = _memo_tables(fn)
        self.wrappers = _wrappers(fn)

    def space_of(self, node):
        """occ/virt provenance of an index list expression"""
        t = U(self.defs.resolve(node))
        if "'occ'" in t and "'virt'" not in t:
            return "occ"
        if "'virt'" in t and "'occ'" not in t:
            return "virt"
        return None

    def classify(self, node, depth=0) -> str:
        if depth > 6:
            return "unknown"
        if isinstance(node, ast.IfExp):
            a, b = self.classify(node.body, depth + 1), self.classify(node.orelse, depth + 1)
            return a if a == b else "unknown"
        if isinstance(node, ast.Call):
            name = call_name(node)
            if name in BRAKET_POS:
                bk = kwarg(node, "braket", BRAKET_POS[name])
                if isinstance(bk, ast.Constant) and bk.value in ("bra", "ket"):
                    return bk.value
                if bk is not None:
                    return "braket:" + U(bk)
                return "unknown"
            if name == "NO":
                return "op"
            if name == "Dagger":
                return "unknown"
            if name in OP_NAMES:
                return "op"
            if name == "excitation_operator":
                cr, an = kwarg(node, "creation", 0), kwarg(node, "annihilation", 1)
                scr = self.space_of(cr) if cr is not None else None
                san = self.space_of(an) if an is not None else None
                if scr == "occ" and san == "virt":
                    return "bra"
                if scr == "virt" and san == "occ":
                    return "ket"
                return "unknown"
            if name in ("amplitude_vector", "Rational", "sqrt", "sympify", "factorial"):
                return "neutral"
            return "unknown"
        if isinstance(node, ast.Subscript):
            base, keys = node, []
            while isinstance(base, ast.Subscript):
                keys.append(base.slice)
                base = base.value
            if isinstance(base, ast.Name) and base.id in self.memo:
                _, mkeys, okey, bk = self.memo[base.id]
                for k in keys:
                    if isinstance(k, ast.Constant) and k.value in ("bra", "ket"):
                        return k.value
                if bk in ("'bra'", "'ket'"):
                    return bk.strip("'")
                return "unknown"
            # (h, rules) = self.h.h0 -> h is `self.h.h0[0]`
            if isinstance(base, ast.Attribute) and base.attr in OP_NAMES:
                return "op"
            if isinstance(base, ast.Call) and call_name(base) in OP_NAMES:
                return "op"
            if isinstance(base, ast.IfExp):
                return self.classify(base, depth + 1)
            return "unknown"
        if isinstance(node, ast.Attribute) and node.attr in OP_NAMES:
            return "op"
        if isinstance(node, ast.Name):
            ds = [d for d in self.defs.all_defs(node.id)]
            vals = []
            for kind, v in ds:
                if kind == "assign" and v is not None:
                    vals.append(self.classify(v, depth + 1))
                elif kind == "opaque":
                    continue
                else:
                    vals.append("unknown")
            vals = [v for v in vals if v != "neutral"] or (["neutral"] if vals else ["unknown"])
            if len(set(vals)) == 1:
                return vals[0]
            return "unknown"
        if isinstance(node, ast.Constant):
            return "neutral"
        if isinstance(node, ast.BinOp) and isinstance(node.op, (ast.Div, ast.Pow)):
            return "neutral"
        if isinstance(node, ast.UnaryOp):
            return self.classify(node.operand, depth + 1)
        return "unknown"


def flatten_mult(node):
    if isinstance(node, ast.BinOp) and isinstance(node.op, ast.Mult):
        return flatten_mult(node.left) + flatten_mult(node.right)
    return [node]


def _block_chain(stmt):
    """ids of the statement lists that contain ``stmt`` (innermost first)"""
    out = []
    child, parent = stmt, getattr(stmt, "_parent", None)
    while parent is not None:
        for field in ("body", "orelse", "finalbody"):
            lst = getattr(parent, field, None)
            if isinstance(lst, list) and any(x is child for x in lst):
                out.append((id(parent), field))
        if isinstance(parent, FuncNode):
            break
        child, parent = parent, getattr(parent, "_parent", None)
    return out


def reaching_assignments(fn, name, at_stmt, skip=lambda a: False):
    """Assignments to ``name`` that may reach ``at_stmt`` (textual order; an
    assignment is killed by a later one located in the same or an enclosing
    statement list)."""
    cands = []
    for n in walk_fn(fn, nested=False):
        if isinstance(n, ast.Assign) and n is not at_stmt and n.lineno <= at_stmt.lineno and not skip(n):
            for t in n.targets:
                if U(t) == name or (isinstance(t, ast.Tuple) and name in [U(e) for e in t.elts]):
                    cands.append(n)
    alive = []
    for a in cands:
        chain_a = _block_chain(a)
        killed = False
        for b in cands:
            if b is a or b.lineno <= a.lineno:
                continue
            cb = _block_chain(b)
            if cb and cb[0] in chain_a:
                killed = True
                break
        if not killed:
            alive.append(a)
    return alive


def _products_for(call, fn):
    """expressions that reach the first argument of a wicks call"""
    a = call.args[0] if call.args else kwarg(call, "expr")
    if not isinstance(a, ast.Name):
        return [a]
    st = enclosing_stmt(call)
    alive = reaching_assignments(
        fn, a.id, st, skip=lambda n: isinstance(n.value, ast.Call) and call_name(n.value) == "wicks")
    return [n.value for n in alive]


def d2(ctx, rule, module, floor):
    n_products = 0
    for fnq, fn in functions_of(ctx, module):
        wcalls = [c for c in calls_in(fn) if call_name(c) == "wicks"]
        if not wcalls:
            continue
        cl = Classifier(fn)
        lab = fnq.split(":")[1]
        for c in wcalls:
            prods = _products_for(c, fn)
            if not prods:
                raise AnalysisError(f"D2: no product found for `{short(c)}` in {fnq}")
            for prod in prods:
                n_products += 1
                fs = flatten_mult(prod)
                kinds = [cl.classify(f) for f in fs]
                # branch on a braket parameter: `braket == 'ket'` guards decide it
                conds = conditions(prod)
                res = []
                for f, kd in zip(fs, kinds):
                    if kd.startswith("braket:"):
                        v = kd.split(":", 1)[1]
                        if (f"{v} == 'bra'", True) in conds:
                            kd = "bra"
                        elif (f"{v} == 'ket'", True) in conds:
                            kd = "ket"
                        else:
                            kd = "unknown"
                    res.append(kd)
                kinds = res
                unk = [U(f)[:60] for f, kd in zip(fs, kinds) if kd == "unknown"]
                if unk:
                    raise AnalysisError(f"D2: cannot classify factor(s) {unk} of the product in {fnq}")
                pos = {k: [i for i, kd in enumerate(kinds) if kd == k] for k in ("bra", "op", "ket")}
                ok = True
                why = ""
                if pos["bra"] and pos["op"] and max(pos["bra"]) > min(pos["op"]):
                    ok, why = False, "a bra-type factor stands right of the operator"
                if pos["ket"] and pos["op"] and min(pos["ket"]) < max(pos["op"]):
                    ok, why = False, "a ket-type factor stands left of the operator"
                if pos["bra"] and pos["ket"] and max(pos["bra"]) > min(pos["ket"]):
                    ok, why = False, "a ket-type factor stands left of a bra-type factor"
                if len(pos["op"]) > 1:
                    ok, why = False, "more than one operator factor in one Wick product"
                if not (pos["bra"] or pos["ket"]):
                    ok, why = False, "no bra/ket factor recognised"
                order = " * ".join(kinds)
                ctx.check(rule, prod, ok, f"{lab}: <bra| op |ket> order ({order})",
                          f"{lab}: product handed to wicks is ordered ({order}): {why}",
                          key=f"{lab} sandwich {order}")
                # every wicks call of the derivation layer evaluates the deltas
                sk = kwarg(c, "simplify_kronecker_deltas", 2)
                ctx.check(rule, c, sk is not None and U(sk) == "True", f"{lab}: deltas evaluated",
                          f"{lab}: wicks without simplify_kronecker_deltas=True", key=f"{lab} deltas")
                # rules of the operator in the product are passed on
                if pos["op"]:
                    opf = fs[pos["op"][0]]
                    rl = kwarg(c, "rules", 1)
                    if isinstance(opf, ast.Name):
                        # `op, rules = ...` / `h, rules = ...`
                        pst = enclosing_stmt(prod)
                        pairs = [n for n in reaching_assignments(fn, opf.id, pst)
                                 if isinstance(n.targets[0], ast.Tuple) and len(n.targets[0].elts) == 2
                                 and U(n.targets[0].elts[0]) == opf.id]
                        for pair in pairs:
                            rname = U(pair.targets[0].elts[1])
                            ok = rl is not None and U(rl) == rname
                            if ok:
                                # the rules name must still hold the value bound together with the operator
                                live = reaching_assignments(fn, rname, enclosing_stmt(c))
                                ok = any(x is pair for x in live) and len(live) == 1
                            ctx.check(rule, c, ok, f"{lab}: rules of `{opf.id}` applied",
                                      f"{lab}: the block rules `{rname}` bound together with operator `{opf.id}` are "
                                      f"not what is passed to wicks (got `{U(rl)}`)", key=f"{lab} rules {opf.id}")
    ctx.floor(rule, f"Wick products in {module}", n_products, floor)


# ---------------------------------------------------------------------------
# D3


def _lifting_prefactors(fn, defs):
    """[(node, kind, space_text)] for Rational(1, n_o! n_v!) / 1/sqrt(n_o! n_v!)"""
    out = []
    for n in walk_fn(fn):
        facts = None
        kind = None
        if isinstance(n, ast.Call) and call_name(n) == "Rational" and len(n.args) == 2 and U(n.args[0]) == "1":
            facts, kind = n.args[1], "rational"
        elif isinstance(n, ast.BinOp) and isinstance(n.op, ast.Div) and U(n.left) == "1" \
                and isinstance(n.right, ast.Call) and call_name(n.right) == "sqrt":
            facts, kind = n.right.args[0], "sqrt"
        if facts is None:
            continue
        fs = flatten_mult(facts)
        args = []
        for f in fs:
            if isinstance(f, ast.Call) and call_name(f) == "factorial" and f.args:
                args.append(f.args[0])
        if len(args) != len(fs) or not args:
            continue
        out.append((n, kind, args))
    return out


def _reaching_value(fn, name, before_line):
    """value of the last assignment to ``name`` textually before ``before_line``"""
    best = None
    for n in walk_fn(fn, nested=False):
        if isinstance(n, ast.Assign) and any(U(t) == name for t in n.targets) and n.lineno < before_line:
            if best is None or n.lineno > best.lineno:
                best = n
    return best.value if best is not None else None


def d3_space_sites(ctx, rule, fnref, floor_generic):
    """Functions that sum indices from generic_indices_from_space(S): the
    lifting prefactor must take n_o, n_v from n_ov_from_space(S) of the same S."""
    fn = ctx.model.fn(fnref)
    lab = fnref.split(":")[1]
    defs = Defs(fn)
    gens = [c for c in calls_in(fn) if call_name(c) == "generic_indices_from_space"]
    ctx.floor(rule, f"generic index requests in {lab}", len(gens), floor_generic)
    prefs = _lifting_prefactors(fn, defs)
    pref_spaces = []
    for node, kind, args in prefs:
        spaces = set()
        keys = []
        for a in args:
            # n_ov["occ"]
            if isinstance(a, ast.Subscript) and isinstance(a.value, ast.Name):
                v = _reaching_value(fn, a.value.id, node.lineno + 1)
                if isinstance(v, ast.Call) and call_name(v) == "n_ov_from_space" and v.args:
                    spaces.add(U(v.args[0]))
                    keys.append(U(a.slice))
                    continue
            spaces.add("?" + U(a))
        ok = len(spaces) == 1 and not next(iter(spaces)).startswith("?") and sorted(keys) == ["'occ'", "'virt'"]
        ctx.check(rule, node, ok, f"{lab}: lifting prefactor 1/(n_o! n_v!) of space {sorted(spaces)}",
                  f"{lab}: lifting prefactor `{short(node, 70)}` does not use occ and virt counts of one space",
                  key=f"{lab} prefactor shape")
        if ok:
            pref_spaces.append((next(iter(spaces)), node))
    for g in gens:
        s = U(g.args[0])
        match = [n for sp, n in pref_spaces if sp == s]
        ctx.check(rule, g, bool(match), f"{lab}: indices summed over `{s}` lifted with the counts of `{s}`",
                  f"{lab}: indices from generic_indices_from_space({s}) are summed, but no lifting prefactor "
                  f"1/(n_o! n_v!) is computed from n_ov_from_space({s}) (prefactors use "
                  f"{sorted({sp for sp, _ in pref_spaces}) or 'none'})", key=f"{lab} lifting {s}")
    return pref_spaces


def d5_hamiltonian(ctx, rule):
    fn = ctx.model.fn("secular_matrix:SecularMatrix.hamiltonian")
    dicts = [n for n in walk_fn(fn) if isinstance(n, ast.Dict)]
    ok = False
    for d in dicts:
        m = {U(k): U(v) for k, v in zip(d.keys, d.values)}
        if m == {"0": "self.h.h0", "1": "self.h.h1"}:
            ok = True
    ctx.check(rule, fn, ok, "order 0 -> h0, order 1 -> h1", "Hamiltonian dispatch table is not {0: h0, 1: h1}",
              key="hamiltonian table")
    gets = [c for c in calls_in(fn) if call_name(c) == "get"]
    ok = any(U(c.args[0]) == "order" and len(c.args) == 2 and U(c.args[1]) == "(0, Rules())" for c in gets)
    ctx.check(rule, fn, ok, "higher orders: zero operator with empty rules",
              "orders above 1 do not map to (0, Rules())", key="hamiltonian default")
    rets = common.returns_of(fn)
    sub = [r for r in rets if ("subtract_gs", True) in conditions(r)]
    ok = any(U(r.value) == "(h - self.gs.energy(order), rules)" for r in sub)
    ctx.check(rule, fn, ok and len(sub) == 1, "subtract_gs: minus E(order) of the same order",
              "ground-state shift is not `h - self.gs.energy(order)`", key="hamiltonian shift")
    nos = [r for r in rets if ("subtract_gs", False) in conditions(r)]
    ctx.check(rule, fn, any(U(r.value) == "(h, rules)" for r in nos), "no shift without subtract_gs",
              "unshifted return is not (h, rules)", key="hamiltonian noshift")


def d5_operator(ctx, rule):
    fn = ctx.model.fn("properties:Properties.operator")
    asg = [n for n in walk_fn(fn) if isinstance(n, ast.Assign) and isinstance(n.targets[0], ast.Tuple)
           and U(n.targets[0]) == "(d, rules)"]
    ctx.floor(rule, "operator definitions in Properties.operator", len(asg), 2)
    for a in asg:
        cs = conditions(a)
        if ("order == 0", True) in cs:
            v = a.value
            ok = isinstance(v, ast.Call) and U(v.func) == "self.h.operator" \
                and U(kwarg(v, "n_create", 0)) == "n_create" and U(kwarg(v, "n_annihilate", 1)) == "n_annihilate"
            ctx.check(rule, a, ok, "zeroth order: the operator itself", f"zeroth-order operator is `{U(v)}`",
                      key="operator order0")
        elif ("order == 0", False) in cs:
            ctx.check(rule, a, U(a.value) == "(sympify(0), Rules())", "higher orders: zero operator",
                      f"higher-order operator is `{U(a.value)}`", key="operator higher")
        else:
            ctx.bad(rule, a, "operator defined outside the order dispatch", key="operator dispatch")
    rets = common.returns_of(fn)
    for r in rets:
        cs = conditions(r)
        if ("subtract_gs", True) in cs and ("n_create == n_annihilate", True) in cs:
            ok = U(r.value) == "(d - e0, rules)"
            e0 = [a for a in common.assigns_to(fn, "e0")]
            ok = ok and len(e0) == 1 and common.call_is(e0[0].value, "self.gs.expectation_value", ["order", "n_particles"],
                                                   order="order", n_particles="n_create")
            ctx.check(rule, r, ok, "shift by the ground-state expectation value of the same order and rank",
                      "ground-state shift is not d - <0|d|0>^(order) with n_particles=n_create", key="operator shift")
        else:
            ctx.check(rule, r, U(r.value) == "(d, rules)", "no shift otherwise", f"unshifted return `{U(r.value)}`",
                      key="operator noshift")
    ctx.floor(rule, "returns in Properties.operator", len(rets), 2)
