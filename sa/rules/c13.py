"""C13 orbital-energy fraction algebra and Fock diagonalisation (decided by abstract evaluation)."""
from __future__ import annotations

import ast
from fractions import Fraction

from ..model import AnalysisError
from ..symex import Obj
from ..terms import T, sym, t_mul, t_add, t_pow, is_num, canon, show, subterms
from .c13_model import (World, NAMES, E, lin, tensor, norm, value, same_value, raw, raw_name, substitute, linear_form,
                        permutation_map, as_self, fmt, frac, indices_of)

EXPLANATION = "see below"
ASSUMPTIONS = []

EOM = "eri_orbenergy"
EO = "eri_orbenergy:EriOrbenergy"
EOd = EO + "."
EC = "expr_container:"
IDX = {"i": "occ", "j": "occ", "k": "occ", "l": "occ", "a": "virt", "b": "virt", "c": "virt", "d": "virt",
       "p": "general", "q": "general"}


def _flatten(n):
    """factors of a product expression (AST helper kept for C11)"""
    if isinstance(n, ast.BinOp) and isinstance(n.op, ast.Mult):
        return _flatten(n.left) + _flatten(n.right)
    return [n]


# ------------------------------------------------------------------------------------------------ helpers

def B(**c):
    """bracket  sum_i c_i e_i"""
    return lin(c)


B1 = dict(i=1, j=1, a=-1, b=-1)
B2 = dict(k=1, c=-1)
B3 = dict(i=1, a=-1)


def eo_self(w, pref, num, denom, eri, **extra):
    """EriOrbenergy instance: prefactor, numerator (Expr), denominator (Expr), remainder (Term)."""
    ass = dict(target_idx=None)
    n = w.expr(num, **ass)
    d = w.expr(denom, **ass)
    r = w.expr(eri, **ass)
    me = Obj(EO, "self")
    me.attrs.update({"_num": n, "_denom": d, "_eri": w.terms_of(r)[0], "_pref": frac(pref), "$id": True})
    me.attrs.update(extra)
    return me


def eo_value(me):
    return norm(t_mul(me.attrs["_pref"], raw(me.attrs["_num"]), raw(me.attrs["_eri"]), T("pow", raw(me.attrs["_denom"]), -1)))


def returned(ctx, rule, fn, outs, what, key):
    """The outcomes of a scenario that must return: raising paths are reported."""
    rets = [o for o in outs if o.kind == "return"]
    bad = [o for o in outs if o.kind != "return"]
    if bad or not rets:
        ctx.bad(rule, fn, f"{what}: valid input is refused ({bad[0].exc if bad else 'no outcome'})", key=f"{key} refused")
    return rets


def vcheck(ctx, rule, fn, got, want, fact, what, key, interp=None):
    try:
        ok = same_value(got, want, interp)
    except AnalysisError:
        ok = False
    return ctx.check(rule, fn, ok, fact, f"{what}: got {fmt(got)}, expected the value of {fmt(want)}", key=key)


ERI = tensor("AntiSymmetricTensor", NAMES["eri"], ("i", "j"), ("a", "b"), 0)
TAMP = tensor("Amplitude", "t1", ("k",), ("c",), 0)


# ------------------------------------------------------------------------------------------------ R13e

def r13e(ctx):
    rule = "R13e"
    # -- recombination  num * eri / denom * pref
    fn = ctx.model.fn(EOd + "expr")
    w = World(IDX)
    sx = w.make(ctx, "EriOrbenergy.expr")
    st = {}

    def args():
        st["me"] = eo_self(w, Fraction(-3, 2), B(i=1, a=-1), norm(t_mul(B(**B1), T("pow", B(**B2), 2))), ERI)
        st["want"] = eo_value(st["me"])
        return dict(self=st["me"])
    for o in returned(ctx, rule, fn, sx.run(fn, args), "EriOrbenergy.expr", "rebuild"):
        vcheck(ctx, rule, fn, o.value, st["want"], "expr = pref * num * eri / denom", "recombined term", "rebuild")

    # -- splitting
    fn = ctx.model.fn(EC + "Term.split_orb_energy")
    cases = {
        "full": t_mul(Fraction(-1, 2), T("pow", ERI, 2), TAMP, E("k"), T("pow", B(**B1), -2), T("pow", B(**B2), -1),
                      T("pow", B(i=1, a=1), 2), T("pow", E("a"), -1), E("c")),
        "orb exponent 1": t_mul(ERI, B(**B3)),
        "orb exponent -1": t_mul(ERI, T("pow", B(**B3), -1)),
        "single energy": t_mul(3, E("i")),
        "number": 5,
        "no fraction": t_mul(2, ERI, TAMP),
    }
    for name, val in cases.items():
        w = World(IDX)
        sx = w.make(ctx, "Term.split_orb_energy")

        def args(val=val):
            ex = w.expr(val)
            t = w.terms_of(ex)[0]
            st["objs"] = w.objects_of(t)
            return dict(self=as_self(w, t, EC + "Term", names=("assumptions", "target"), objects=st["objs"]))
        for o in returned(ctx, rule, fn, sx.run(fn, args), f"split_orb_energy[{name}]", f"split {name}"):
            res = o.value
            if not (isinstance(res, dict) and set(res) == {"num", "denom", "remainder"}):
                ctx.bad(rule, fn, f"split_orb_energy[{name}] returns {fmt(res)}", key=f"split {name} shape")
                continue
            want = {"num": [], "denom": [], "remainder": []}
            for ob in st["objs"]:
                v = ob.attrs["$value"]
                base, e = w.attr(None, ob, "base_and_exponent", None)
                if is_num(v):
                    want["num"].append(v)
                elif w.attr(None, ob, "contains_only_orb_energies", None):
                    want["denom" if e < 0 else "num"].append(T("pow", base, abs(e)))
                else:
                    want["remainder"].append(v)
            for k in want:
                vcheck(ctx, rule, fn, res[k], norm(t_mul(*want[k])) if want[k] else 1,
                       f"{k}: numbers and orbital energies with positive exponent -> num, orbital energies with negative "
                       "exponent -> denom (as base**|n|), everything else -> remainder",
                       f"split_orb_energy[{name}]: part `{k}`", key=f"split {name} {k}")
            vcheck(ctx, rule, fn, norm(t_mul(raw(res["num"]), raw(res["remainder"]), T("pow", raw(res["denom"]), -1))), val,
                   "num * remainder / denom is the term", f"split_orb_energy[{name}]: recombined parts", key=f"split {name} value")
            tg = [w.assumptions_of(res[k]).get("target_idx") if isinstance(res[k], Obj) else None for k in res]
            ctx.check(rule, fn, all(t is not None and [raw_name(x) for x in t] == [raw_name(x) for x in w.target_of(st["objs"][0].attrs["$parent"])]
                                    for t in tg),
                      "the parts carry the target indices of the term", f"split_orb_energy[{name}]: parts have targets {tg}",
                      key=f"split {name} target")

    # -- what counts as an orbital energy
    fn = ctx.model.fn(EC + "Obj.contains_only_orb_energies")
    table = {"e_i": (E("i"), True), "e_i**-2": (T("pow", E("i"), -2), True), "f_ij": (tensor("AntiSymmetricTensor", NAMES["fock"], ("i",), ("j",), 1), False),
             "e_ij": (tensor("NonSymmetricTensor", NAMES["orb_energy"], ("i", "j")), False), "V": (ERI, False),
             "x_i": (tensor("NonSymmetricTensor", "x", ("i",)), False)}
    for name, (val, want) in table.items():
        w = World(IDX)
        sx = w.make(ctx, "Obj.contains_only_orb_energies")

        def args(val=val):
            ob = w.objects_of(w.terms_of(w.expr(val))[0])[0]
            return dict(self=as_self(w, ob, EC + "Obj", names=("name", "idx", "sympy", "base", "exponent")))
        for o in returned(ctx, rule, fn, sx.run(fn, args), f"contains_only_orb_energies[{name}]", f"only orb {name}"):
            ctx.check(rule, fn, o.value is want, f"{name}: orbital energy = tensor e with one index -> {want}",
                      f"Obj.contains_only_orb_energies is {o.value} for {name}", key=f"only orb {name}")
    for cls, val, want in (("Term", t_mul(-1, E("i")), True), ("Term", t_mul(2, E("i"), ERI), False),
                           ("Polynom", T("pow", B(**B1), -1), True), ("Polynom", norm(t_add(E("i"), ERI)), False)):
        fn = ctx.model.fn(f"{EC}{cls}.contains_only_orb_energies")
        w = World(IDX)
        sx = w.make(ctx, f"{cls}.contains_only_orb_energies")

        def args(val=val, cls=cls):
            t = w.terms_of(w.expr(val))[0]
            if cls == "Term":
                return dict(self=as_self(w, t, EC + "Term", names=("objects",)))
            t = w.terms_of(w.expr(t_mul(TAMP, val)))[0]
            pol = [x for x in w.objects_of(t) if x.attrs["$kind"] == "polynom"][0]
            return dict(self=as_self(w, pol, EC + "Polynom", names=("terms", "exponent")))
        for o in returned(ctx, rule, fn, sx.run(fn, args), f"{cls}.contains_only_orb_energies", f"only orb {cls} {fmt(val)}"):
            ctx.check(rule, fn, o.value is want, f"{cls} {fmt(val)}: only orbital energies -> {want}",
                      f"{cls}.contains_only_orb_energies is {o.value} for {fmt(val)}", key=f"only orb {cls} {fmt(val)}")

    # -- cancelling brackets / objects by position
    den3 = norm(t_mul(T("pow", B(**B1), 3), B(**B2), T("pow", B(**B3), 2)))
    for name, den, idxs in (("three brackets", den3, [0, 0, 2, 1]), ("three brackets, one hit", den3, [2]),
                            ("single bracket", B(**B1), [0]), ("single power", T("pow", B(**B1), 2), [0]), ("nothing", den3, [])):
        fn = ctx.model.fn(EOd + "cancel_denom_brackets")
        w = World(IDX)
        sx = w.make(ctx, "cancel_denom_brackets")

        def args(den=den, idxs=idxs):
            st["me"] = eo_self(w, 1, 1, den, ERI)
            return dict(self=st["me"], braket_idx_list=list(idxs))
        for o in returned(ctx, rule, fn, sx.run(fn, args), f"cancel_denom_brackets[{name}]", f"cancel_denom_brackets {name}"):
            me = st["me"]
            d = me.attrs["_denom"]
            dv = d.attrs["$value"]
            if isinstance(dv, T) and dv.op == "mul":
                brs = [x.attrs["$value"] for x in w.objects_of(w.terms_of(d)[0])]
            else:
                brs = [dv]
            be = [(x.args[0], x.args[1]) if isinstance(x, T) and x.op == "pow" else (x, 1) for x in brs]
            want = norm(t_mul(*[T("pow", b, e - idxs.count(i)) for i, (b, e) in enumerate(be)])) if be else 1
            vcheck(ctx, rule, fn, o.value, want, "every listed bracket loses one power per listing; untouched brackets stay",
                   f"cancel_denom_brackets[{name}] with positions {idxs}", key=f"cancel_denom_brackets {name}")
            vcheck(ctx, rule, fn, me.attrs["_denom"], den, "the denominator of the instance is not modified",
                   f"cancel_denom_brackets[{name}]: denominator of the instance afterwards", key=f"cancel_denom_brackets {name} pure")
    rem = norm(t_mul(T("pow", ERI, 2), TAMP, tensor("NonSymmetricTensor", "x", ("i",))))
    for name, idxs in (("two objects", [0, 2]), ("twice", [0, 0]), ("nothing", [])):
        fn = ctx.model.fn(EOd + "cancel_eri_objects")
        w = World(IDX)
        sx = w.make(ctx, "cancel_eri_objects")

        def args(idxs=idxs):
            st["me"] = eo_self(w, 1, 1, 1, rem)
            return dict(self=st["me"], obj_idx_list=list(idxs))
        for o in returned(ctx, rule, fn, sx.run(fn, args), f"cancel_eri_objects[{name}]", f"cancel_eri_objects {name}"):
            obs = [x.attrs["$value"] for x in w.objects_of(st["me"].attrs["_eri"])]
            be = [(x.args[0], x.args[1]) if isinstance(x, T) and x.op == "pow" else (x, 1) for x in obs]
            want = norm(t_mul(*[T("pow", b, e - idxs.count(i)) for i, (b, e) in enumerate(be)]))
            vcheck(ctx, rule, fn, o.value, want, "every listed object loses one power per listing",
                   f"cancel_eri_objects[{name}] with positions {idxs}", key=f"cancel_eri_objects {name}")

    # -- construction: prefactor extraction
    fn = ctx.model.fn(EOd + "__init__")
    far = ctx.model.fn(f"{EOM}:factor_and_remove_number")
    for name, numc in (("halves", dict(i=Fraction(3, 2), a=Fraction(-1, 2))), ("twos", dict(i=2, j=2, a=-2, b=-2)),
                       ("unit", dict(i=1, a=-1)), ("negative unit", dict(i=-1, a=1)), ("mixed", dict(i=Fraction(1, 2), a=-3))):
        w = World(IDX)
        w.extra_hooks["split_orb_energy"] = lambda sx, a, kw: st["parts"]
        w.extra_hooks["factor_and_remove_number"] = lambda sx, a, kw: _far_model(w, sx, a, kw)
        sx = w.make(ctx, "EriOrbenergy.__init__")

        def args(numc=numc):
            den = norm(t_mul(B(**B1), T("pow", B(**B2), 2)))
            st["parts"] = {"num": w.expr(lin(numc)), "denom": w.expr(den), "remainder": w.expr(ERI)}
            st["val"] = norm(t_mul(lin(numc), ERI, T("pow", den, -1)))
            st["me"] = Obj(EO, "self")
            st["me"].attrs["$id"] = True
            return dict(self=st["me"], term=w.terms_of(w.expr(st["val"]))[0])
        for o in returned(ctx, rule, fn, sx.run(fn, args), f"EriOrbenergy[{name}]", f"init {name}"):
            a = st["me"].attrs
            if not all(k in a for k in ("_pref", "_num", "_denom", "_eri")):
                ctx.bad(rule, fn, f"EriOrbenergy[{name}]: attributes {sorted(k for k in a if k.startswith('_'))}", key=f"init {name} shape")
                continue
            vcheck(ctx, rule, fn, eo_value(st["me"]), st["val"], "pref * num * eri / denom is the term",
                   f"EriOrbenergy[{name}]: pref={a['_pref']}, num={fmt(a['_num'])}", key=f"init {name} value")
            lf = linear_form(raw(a["_num"]))
            m = min(abs(c) for c in numc.values())
            ctx.check(rule, fn, is_num(a["_pref"]) and abs(a["_pref"]) == m and lf is not None and min(abs(c) for c in lf.values()) == 1,
                      "prefactor = numerator coefficient of smallest magnitude; the smallest coefficient left in the numerator is 1",
                      f"EriOrbenergy[{name}]: prefactor {a['_pref']} extracted from {fmt(lin(numc))}, numerator left {fmt(a['_num'])}",
                      key=f"init {name} pref")
    # number numerators
    for name, numv in (("numerator 1", 1), ("numerator 0", 0), ("numerator 1/4", Fraction(1, 4))):
        w = World(IDX)
        w.extra_hooks["split_orb_energy"] = lambda sx, a, kw: st["parts"]
        w.extra_hooks["factor_and_remove_number"] = lambda sx, a, kw: _far_model(w, sx, a, kw)
        sx = w.make(ctx, "EriOrbenergy.__init__")

        def args(numv=numv):
            st["parts"] = {"num": w.expr(numv), "denom": w.expr(B(**B1)), "remainder": w.expr(ERI)}
            st["val"] = norm(t_mul(numv, ERI, T("pow", B(**B1), -1)))
            st["me"] = Obj(EO, "self")
            st["me"].attrs["$id"] = True
            return dict(self=st["me"], term=w.terms_of(w.expr(st["val"] if numv else ERI))[0])
        for o in returned(ctx, rule, fn, sx.run(fn, args), f"EriOrbenergy[{name}]", f"init {name}"):
            vcheck(ctx, rule, fn, eo_value(st["me"]), st["val"], "pref * num * eri / denom is the term",
                   f"EriOrbenergy[{name}]: pref={st['me'].attrs.get('_pref')}, num={fmt(st['me'].attrs.get('_num'))}",
                   key=f"init {name} value")
    # -- factor_and_remove_number: value / number
    w = World(IDX)
    sx = w.make(ctx, "factor_and_remove_number", opaque=())

    def args():
        st["e"] = w.expr(lin(dict(i=Fraction(3, 2), a=Fraction(-1, 2))))
        return dict(expr=st["e"], number=Fraction(-1, 2))
    VOC = "factor_and_remove_number"
    from .c13_model import VOCAB
    VOCAB.discard(VOC)
    try:
        outs = sx.run(far, args)
    finally:
        VOCAB.add(VOC)
    for o in returned(ctx, rule, far, outs, "factor_and_remove_number", "factor number"):
        got = o.value
        if isinstance(got, Obj) and "_expr" in got.attrs and "$value" in got.attrs:
            got = got.attrs["_expr"]
        vcheck(ctx, rule, far, got, lin(dict(i=-3, a=1)), "the expression divided by the number",
               "factor_and_remove_number(3/2 e_i - 1/2 e_a, -1/2)", key="factor number")


def _far_model(w, sx, a, kw):
    """contract of factor_and_remove_number: expr / number"""
    e = a[0] if a else kw["expr"]
    n = a[1] if len(a) > 1 else kw["number"]
    w.log.append(("factor_and_remove_number", (e, n)))
    return w.wrap_like(e, norm(t_mul(raw(e), T("pow", n, -1)))) if isinstance(e, Obj) else norm(t_mul(e, T("pow", n, -1)))


# ------------------------------------------------------------------------------------------------ R13a

def _canonical(w, lf):
    return lf is not None and all((c > 0) == (w.index[i].attrs["space"] == "occ") for i, c in lf.items())


def r13a(ctx):
    rule = "R13a"
    fn = ctx.model.fn(EOd + "canonicalize_sign")
    good, bad_ = dict(i=1, a=-1), dict(i=-1, a=1)
    gB1, bB1 = B1, {k: -v for k, v in B1.items()}
    cases = {
        "numerator wrong": (bad_, t_mul(B(**gB1), T("pow", B(**B2), 2)), False, True),
        "numerator wrong, only_denom": (bad_, t_mul(B(**gB1), T("pow", B(**B2), 2)), True, True),
        "numerator right": (good, B(**gB1), False, True),
        "virtual numerator wrong": (dict(a=1, b=1), B(**gB1), False, True),
        "occupied numerator wrong": (dict(i=-2, j=-1), B(**gB1), False, True),
        "single bracket wrong": (good, B(**bB1), False, True),
        "odd power wrong": (good, t_mul(B(**gB1), T("pow", B(**bad_), 3)), False, True),
        "even power wrong": (good, t_mul(B(**gB1), T("pow", B(**bad_), 2)), False, True),
        "both brackets wrong": (bad_, t_mul(B(**bB1), T("pow", B(**bad_), 3), T("pow", B(k=-1, c=1), 2)), False, True),
        "single power wrong": (good, T("pow", B(**bB1), 3), True, True),
        "numbers": (None, 1, False, True),
        "number numerator": (None, t_mul(B(**bB1), B(**B2)), False, True),
        "not canonicalisable numerator": (dict(i=1, a=1), B(**gB1), False, False),
        "not canonicalisable bracket": (good, B(i=-1, a=-1), False, False),
        "mixed occupied signs": (dict(i=1, j=-1), B(**gB1), False, False),
    }
    st = {}
    for name, (numc, den, only, fine) in cases.items():
        w = World(IDX)
        sx = w.make(ctx, "canonicalize_sign")

        def args(numc=numc, den=den, only=only):
            st["me"] = eo_self(w, Fraction(-1, 2), lin(numc) if numc else 1, norm(den), ERI)
            st["val"] = eo_value(st["me"])
            return dict(self=st["me"], only_denom=only)
        outs = sx.run(fn, args)
        what = f"canonicalize_sign[{name}]"
        if not fine:
            ctx.check(rule, fn, all(o.kind == "raise" for o in outs), f"{what}: signs that no global factor -1 can fix are refused",
                      f"{what}: a numerator/bracket whose signs cannot be made canonical by a factor -1 is accepted "
                      f"(left as {fmt(st['me'].attrs['_num'])} / {fmt(st['me'].attrs['_denom'])})", key=f"{name} refused")
            continue
        for o in returned(ctx, rule, fn, outs, what, name):
            me = st["me"]
            vcheck(ctx, rule, fn, eo_value(me), st["val"], "pref * num / denom unchanged by the sign flips",
                   f"{what}: pref={me.attrs['_pref']}, num={fmt(me.attrs['_num'])}, denom={fmt(me.attrs['_denom'])}; value changed",
                   key=f"{name} value")
            nv = raw(me.attrs["_num"])
            if numc and not only:
                ctx.check(rule, fn, _canonical(w, linear_form(nv)), "numerator: occupied energies added, virtual subtracted",
                          f"{what}: numerator left as {fmt(nv)}", key=f"{name} numerator signs")
            if numc and only:
                vcheck(ctx, rule, fn, nv, lin(numc), "only_denom: numerator untouched", f"{what}: numerator", key=f"{name} numerator kept")
            dv = norm(raw(me.attrs["_denom"]))
            fs = list(dv.args) if isinstance(dv, T) and dv.op == "mul" else [dv]
            okd = True
            for f_ in fs:
                if is_num(f_):
                    continue
                b = f_.args[0] if isinstance(f_, T) and f_.op == "pow" else f_
                okd = okd and _canonical(w, linear_form(b))
            ctx.check(rule, fn, okd, "every bracket: occupied energies added, virtual subtracted",
                      f"{what}: denominator left as {fmt(dv)}", key=f"{name} bracket signs")
    # the sign word of a term
    fn = ctx.model.fn(EC + "Term.sign")
    for pf, want in ((Fraction(-1, 2), "minus"), (-1, "minus"), (1, "plus"), (Fraction(3, 2), "plus")):
        w = World(IDX)
        sx = w.make(ctx, "Term.sign")
        outs = sx.run(fn, lambda pf=pf: dict(self=as_self(w, w.terms_of(w.expr(t_mul(pf, E("i"))))[0], EC + "Term", names=("prefactor",))))
        for o in returned(ctx, rule, fn, outs, f"Term.sign[{pf}]", f"term sign {pf}"):
            ctx.check(rule, fn, o.value == want, f"prefactor {pf}: sign '{want}'", f"Term.sign is {o.value!r} for the prefactor {pf}",
                      key=f"term sign {pf}")


# ------------------------------------------------------------------------------------------------ R13h

def r13h(ctx):
    """EriOrbenergy.cancel_orb_energy_frac: the sum of the partial fractions is the fraction."""
    rule = "R13h"
    fn = ctx.model.fn(EOd + "cancel_orb_energy_frac")
    nB1 = {k: -v for k, v in B1.items()}
    cases = {
        "numerator = bracket": (Fraction(1, 4), B(**B1), B(**B1)),
        "numerator = bracket of two": (1, B(**B1), t_mul(B(**B1), B(**B2))),
        "weights 2:1": (Fraction(1, 2), norm(t_add(t_mul(2, B(**B1)), B(**B2))), t_mul(B(**B1), B(**B2))),
        "weights 3:2": (1, norm(t_add(t_mul(3, B(**B3)), t_mul(2, B(**B2)))), t_mul(B(**B3), B(**B2))),
        "weights 1:2": (1, norm(t_add(B(**B1), t_mul(2, B(**B2)))), t_mul(B(**B1), B(**B2))),
        "weights 1/2:1": (-2, norm(t_add(t_mul(Fraction(1, 2), B(**B1)), B(**B2))), t_mul(B(**B1), B(**B2))),
        "leftover energy": (1, norm(t_add(B(**B1), E("k"))), t_mul(B(**B1), B(**B2))),
        "leftover after two": (3, norm(t_add(B(**B1), B(**B2), E("l"))), t_mul(B(**B1), B(**B2), B(l=1, d=-1))),
        "squared bracket": (1, B(**B3), t_mul(B(**B1), T("pow", B(**B3), 2))),
        "single squared bracket": (1, B(**B3), T("pow", B(**B3), 2)),
        "shared indices": (1, B(i=2, j=1, a=-2, b=-1), t_mul(B(**B1), B(**B3))),
        "three brackets": (Fraction(1, 3), norm(t_add(B(**B1), t_mul(2, B(**B2)), t_mul(4, B(l=1, d=-1)))),
                           t_mul(B(**B1), B(**B2), B(l=1, d=-1))),
        "nothing matches": (1, B(**B2), B(**B1)),
        "partial match": (1, B(i=1, a=-1), B(**B1)),
        "signs to fix first": (Fraction(1, 2), B(**nB1), t_mul(B(**B1), B(k=-1, c=1))),
        "number numerator": (5, 1, t_mul(B(**B1), B(**B2))),
        "number denominator": (5, B(**B1), 1),
    }
    st = {}
    for name, (pref, num, den) in cases.items():
        w = World(IDX)
        w.extra_hooks["factor_and_remove_number"] = lambda sx, a, kw, w=w: _far_model(w, sx, a, kw)
        sx = w.make(ctx, "cancel_orb_energy_frac")

        def args(pref=pref, num=num, den=den):
            st["me"] = eo_self(w, pref, norm(num), norm(den), ERI)
            st["val"] = eo_value(st["me"])
            return dict(self=st["me"])
        what = f"cancel_orb_energy_frac[{name}]"
        for o in returned(ctx, rule, fn, sx.run(fn, args), what, name):
            vcheck(ctx, rule, fn, o.value, st["val"],
                   f"{what}: the partial fractions add up to pref * eri * num / denom",
                   f"{what}: {pref} * [{fmt(norm(num))}] / [{fmt(norm(den))}] is decomposed into terms of a different value: the "
                   "running prefactor, the bracket that is removed and the numerator that is left do not fit together",
                   key=f"{name} value")


# ------------------------------------------------------------------------------------------------ R13b

def _pairs(w, *pp):
    return tuple(w.idx(*p) for p in pp)


def _symmetrised(val, sym_items):
    """1/(n+1) (X + sum_P f_P P X) over the operations with a factor"""
    ops = [(perms, f) for perms, f in sym_items if f is not None]
    parts = [val]
    for perms, f in ops:
        m = permutation_map(None, perms)
        parts.append(t_mul(f, substitute(val, m)))
    return norm(t_mul(Fraction(1, len(ops) + 1), t_add(*parts)))


def _sx_permute_num(ctx, rule, fnref):
    fn = ctx.model.fn(fnref)
    lab = fnref.split(":")[1]
    syms = {
        "two symmetric": lambda w: [(_pairs(w, "ij", "ab"), 1), (_pairs(w, "kl"), 1)],
        "antisymmetric": lambda w: [(_pairs(w, "ij"), -1), (_pairs(w, "ab"), -1), (_pairs(w, "ij", "ab"), 1)],
        "some not common": lambda w: [(_pairs(w, "ij"), None), (_pairs(w, "ij", "ab"), 1), (_pairs(w, "ab"), None)],
        "none common": lambda w: [(_pairs(w, "ij"), None)],
        "no symmetry": lambda w: [],
        "cancels": lambda w: [(_pairs(w, "ia"), 1)],
    }
    nums = {"two symmetric": dict(i=1, a=-1), "antisymmetric": dict(i=1, a=-1), "some not common": dict(i=3, a=-1, k=2),
            "none common": dict(i=1, a=-1), "no symmetry": dict(i=2, a=-2), "cancels": dict(i=1, a=-1)}
    st = {}
    for name, mk in syms.items():
        w = World(IDX)
        w.extra_hooks["factor_and_remove_number"] = lambda sx, a, kw, w=w: _far_model(w, sx, a, kw)

        def des(sx, a, kw, mk=mk, w=w):
            st["kw"] = dict(kw)
            st["pos"] = list(a[1:])
            st["sym"] = mk(w)
            return dict(st["sym"])
        w.extra_hooks["denom_eri_sym"] = des
        sx = w.make(ctx, lab)

        def args(name=name):
            st["me"] = eo_self(w, Fraction(-1, 2), lin(nums[name]), B(**B1), ERI)
            st["sent"] = sym("ERISYM")
            return dict(self=st["me"], eri_sym=st["sent"])
        what = f"{lab}[{name}]"
        for o in returned(ctx, rule, fn, sx.run(fn, args), what, f"{lab} {name}"):
            me = st["me"]
            want = t_mul(Fraction(-1, 2), _symmetrised(lin(nums[name]), st["sym"]))
            got = norm(t_mul(me.attrs["_pref"], raw(me.attrs["_num"])))
            n = len([1 for _, f in st["sym"] if f is not None])
            vcheck(ctx, rule, fn, got, want,
                   f"{what}: pref * num = pref0 * 1/({n}+1) (num0 + sum over the {n} common operations f_P P num0)",
                   f"{what}: the numerator {fmt(lin(nums[name]))} symmetrised with {fmt([(p, f) for p, f in st['sym']])} gives "
                   f"pref={me.attrs['_pref']}, num={fmt(me.attrs['_num'])}; expected the normalised sum over the identity and the "
                   f"{n} operations that leave remainder*denominator invariant, each with its factor", key=f"{lab} {name} normalisation")
            kw = st.get("kw", {})
            ctx.check(rule, fn, kw.get("only_contracted") is True and not st["pos"], "only contracted indices are permuted",
                      f"{what}: the common symmetry is requested with {fmt(kw)} {fmt(st['pos'])} (only_contracted=True expected)",
                      key=f"{lab} {name} contracted")
            ctx.check(rule, fn, kw.get("eri_sym") == st["sent"], "the given symmetry of the remainder is used",
                      f"{what}: eri_sym is not forwarded ({fmt(kw.get('eri_sym'))})", key=f"{lab} {name} eri_sym")
            lf = linear_form(raw(me.attrs["_num"]))
            ctx.check(rule, fn, lf is None or not lf or min(abs(c) for c in lf.values()) == 1,
                      "smallest numerator coefficient moved to the prefactor", f"{what}: numerator left as {fmt(me.attrs['_num'])}",
                      key=f"{lab} {name} pref")
    # number numerator: untouched
    w = World(IDX)
    w.extra_hooks["denom_eri_sym"] = lambda sx, a, kw: {_pairs(w, "ij"): 1}
    sx = w.make(ctx, lab)

    def args():
        st["me"] = eo_self(w, 3, 1, B(**B1), ERI)
        return dict(self=st["me"], eri_sym=None)
    for o in returned(ctx, rule, fn, sx.run(fn, args), f"{lab}[number]", f"{lab} number"):
        vcheck(ctx, rule, fn, eo_value(st["me"]), norm(t_mul(3, ERI, T("pow", B(**B1), -1))), "a number numerator is left alone",
               f"{lab}[number]", key=f"{lab} number")


def _sx_symmetrize(ctx, rule, fnref):
    fn = ctx.model.fn(fnref)
    lab = fnref.split(":")[1]
    X = norm(t_mul(Fraction(1, 2), ERI, tensor("Amplitude", "t2", ("i", "j"), ("a", "b"), 0), E("i")))
    st = {}
    for name, mk in (("three operations", lambda w: [(_pairs(w, "ij"), -1), (_pairs(w, "ab"), -1), (_pairs(w, "ij", "ab"), 1)]),
                     ("one operation", lambda w: [(_pairs(w, "ij", "ab"), 1)]), ("no symmetry", lambda w: [])):
        w = World(IDX)

        def symh(sx, a, kw, mk=mk, w=w):
            st["kw"], st["pos"] = dict(kw), list(a[1:])
            st["sym"] = mk(w)
            return dict(st["sym"])
        w.extra_hooks["symmetry"] = symh
        sx = w.make(ctx, lab)
        outs = sx.run(fn, lambda: dict(self=as_self(w, w.terms_of(w.expr(X))[0], EC + "Term", names=("sympy", "assumptions"))))
        what = f"{lab}[{name}]"
        for o in returned(ctx, rule, fn, outs, what, f"{lab} {name}"):
            n = len(st["sym"])
            vcheck(ctx, rule, fn, o.value, _symmetrised(X, st["sym"]),
                   f"{what}: 1/({n}+1) (X + sum over the {n} operations f_P P X)",
                   f"{what}: the sum over the identity and the {n} symmetry operations is not normalised by 1/({n}+1) / an "
                   "operation is applied without its factor", key=f"{lab} {name} normalisation")
            kw = st.get("kw", {})
            oc = kw.get("only_contracted", st["pos"][0] if st["pos"] else None)
            ctx.check(rule, fn, oc is True and not kw.get("only_target"), "only contracted indices are permuted",
                      f"{what}: symmetry requested with {fmt(kw)} {fmt(st['pos'])}", key=f"{lab} {name} contracted")


def _sx_derivative(ctx, rule, fnref):
    """derivative: the contribution of one tensor occurrence is symmetrised with the symmetry of the removed tensor"""
    fn = ctx.model.fn(fnref)
    lab = fnref.split(":")[1]
    REM = tensor("Amplitude", "t2", ("i", "j"), ("a", "b"), 0)
    st = {}
    for name, exponent, mk in (("V", 1, lambda w: [(_pairs(w, "ij"), -1), (_pairs(w, "ab"), -1), (_pairs(w, "ij", "ab"), 1)]),
                               ("V**2", 2, lambda w: [(_pairs(w, "ij", "ab"), 1)]), ("no symmetry", 1, lambda w: [])):
        w = World(IDX)
        X = norm(t_mul(Fraction(1, 4), T("pow", ERI, exponent), REM))

        def symh(sx, a, kw, mk=mk, w=w):
            st["sym"] = mk(w)
            return dict(st["sym"])
        w.extra_hooks["symmetry"] = symh
        w.extra_hooks["minimize_tensor_indices"] = lambda sx, a, kw: (a[0], ())
        w.extra_hooks["diff"] = lambda sx, a, kw: T("call", "diff", (raw(a[0]), raw(a[1])), ())
        w.extra_hooks["Index"] = lambda sx, a, kw: sym("$x")
        sx = w.make(ctx, lab)
        outs = sx.run(fn, lambda: dict(expr=w.expr(X, target_idx=()), t_string=NAMES["eri"]))
        what = f"{lab}[{name}]"
        for o in returned(ctx, rule, fn, outs, what, f"{lab} {name}"):
            res = o.value
            inner = [c.args[1][0] for v in (res.values() if isinstance(res, dict) else []) for c in subterms(raw(v))
                     if c.op == "call" and c.args[0] == "diff"]
            if len(inner) != 1:
                ctx.bad(rule, fn, f"{what}: expected one differentiated contribution, got {fmt(res)}", key=f"{lab} {name} shape")
                continue
            n = len(st["sym"])
            contrib = norm(t_mul(Fraction(1, 4), REM, T("pow", sym("$x"), exponent)))
            vcheck(ctx, rule, fn, inner[0], _symmetrised(contrib, st["sym"]),
                   f"{what}: 1/({n}+1) (X + sum over the {n} operations of the removed tensor f_P P X)",
                   f"{what}: the sum over the identity and the {n} symmetry operations of the removed tensor is not normalised by "
                   f"1/({n}+1) / an operation is applied without its factor", key=f"{lab} {name} normalisation")


_SYMMETRISERS = {EOd + "permute_num": _sx_permute_num, EC + "Term.symmetrize": _sx_symmetrize,
                 "derivative:derivative": _sx_derivative}


def symmetriser_normalisation(ctx, rule, fnref):
    """A symmetriser `x -> 1/(n+1) (x + sum_P f_P P x)` is evaluated for small symmetry groups and compared with that
    formula (normalisation by the number of operations + 1, every operation once with its factor)."""
    if fnref not in _SYMMETRISERS:
        raise AnalysisError(f"symmetriser_normalisation: no scenario for {fnref}")
    _SYMMETRISERS[fnref](ctx, rule, fnref)


def r13b(ctx):
    rule = "R13b"
    for ref in _SYMMETRISERS:
        symmetriser_normalisation(ctx, rule, ref)
    # common symmetry of remainder and denominator
    fn = ctx.model.fn(EOd + "denom_eri_sym")
    st = {}
    D12 = norm(t_mul(B(**B1), B(**B2)))
    table = {
        "invariant": (D12, lambda w: [(_pairs(w, "ij"), -1), (_pairs(w, "ij", "ab"), 1), (_pairs(w, "ab"), -1)],
                      lambda s: [f for _, f in s]),
        "sign change": (B(i=1, k=-1), lambda w: [(_pairs(w, "ik"), 1), (_pairs(w, "ik", "ac"), -1)], lambda s: [-f for _, f in s]),
        "changed": (D12, lambda w: [(_pairs(w, "ik"), 1), (_pairs(w, "ac"), -1), (_pairs(w, "ij"), 1)], lambda s: [None, None, 1]),
        "swapped brackets": (norm(t_mul(B(i=1, a=-1), B(k=1, c=-1))), lambda w: [(_pairs(w, "ik", "ac"), 1), (_pairs(w, "ik"), -1)],
                             lambda s: [1, None]),
        "squared": (T("pow", B(**B1), 2), lambda w: [(_pairs(w, "ij"), -1), (_pairs(w, "ik"), 1)], lambda s: [-1, None]),
    }
    for name, (den, mk, want) in table.items():
        w = World(IDX)
        sx = w.make(ctx, "denom_eri_sym")

        def args(den=den, mk=mk):
            st["me"] = eo_self(w, 1, B(i=1, a=-1), den, ERI)
            st["sym"] = mk(w)
            return dict(self=st["me"], eri_sym=dict(st["sym"]), kwargs={})
        what = f"denom_eri_sym[{name}]"
        for o in returned(ctx, rule, fn, sx.run(fn, args), what, f"denom_eri_sym {name}"):
            exp = dict(zip([p for p, _ in st["sym"]], want(st["sym"])))
            ctx.check(rule, fn, isinstance(o.value, dict) and o.value == exp,
                      f"{what}: P D = D keeps the factor of the remainder, P D = -D negates it, otherwise None",
                      f"{what}: for the denominator {fmt(den)} and the remainder symmetry {fmt(st['sym'])} the common symmetry is "
                      f"{fmt(o.value)}, expected {fmt(exp)}", key=f"denom_eri_sym {name}")
            vcheck(ctx, rule, fn, st["me"].attrs["_denom"], den, "the denominator of the instance is not modified",
                   f"{what}: denominator afterwards", key=f"denom_eri_sym {name} pure")
    # number denominator: the symmetry of the remainder
    for name, given in (("given", True), ("on the fly", False)):
        w = World(IDX)
        w.extra_hooks["symmetry"] = lambda sx, a, kw: st.__setitem__("kw", dict(kw)) or {"marker": 1}
        sx = w.make(ctx, "denom_eri_sym")

        def args(given=given):
            st["me"] = eo_self(w, 1, B(i=1, a=-1), 1, ERI)
            return dict(self=st["me"], eri_sym={"given": 1} if given else None, kwargs={"only_contracted": True})
        for o in returned(ctx, rule, fn, sx.run(fn, args), f"denom_eri_sym[number, {name}]", f"denom_eri_sym number {name}"):
            ok = o.value == ({"given": 1} if given else {"marker": 1}) and (given or st.get("kw") == {"only_contracted": True})
            ctx.check(rule, fn, ok, f"number denominator, symmetry {name}: the symmetry of the remainder",
                      f"denom_eri_sym[number, {name}] returns {fmt(o.value)}", key=f"denom_eri_sym number {name}")


def run(ctx):
    if ctx.want("R13h"):
        r13h(ctx)
    for r, f in (("R13a", r13a), ("R13b", r13b), ("R13e", r13e)):
        if ctx.want(r):
            f(ctx)
