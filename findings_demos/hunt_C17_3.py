"""
A symbol in the denominator of a term that carries no indices (a pure scalar
contribution) is silently dropped by generate_code: 2/x is emitted as '+ 2'.
For terms with tensors the same denominator is refused with
NotImplementedError ('Contractions not implemented for divisions').

Run from the worktree root:  /venv/bin/python hunt_out/3/demo.py
exit code 1: defect present, 0: fixed (correct code or NotImplementedError)
"""
import sys, os, re
sys.path.insert(0, os.getcwd())
from fractions import Fraction
import logging
logging.disable(logging.CRITICAL)
from sympy import Symbol, Rational

from adcgen import Expr, generate_code
from adcgen.indices import get_symbols
from adcgen.sympy_objects import AntiSymmetricTensor

x, y = Symbol("x"), Symbol("y")
i, = get_symbols("i")
f_ii = AntiSymmetricTensor("f", (i,), (i,))
VALUES = {"x": Fraction(3), "y": Fraction(5)}
TRACE_F = Fraction(7)  # value used for sum_i f_ii

cases = [  # (expression, expected value)
    (2 / x, Fraction(2, 3)),
    (Rational(1, 2) * y / x**2, Fraction(5, 18)),
    (x * f_ii + 2 / x, 3 * TRACE_F + Fraction(2, 3)),
    (2 * x**2, Fraction(18)),  # control: positive exponents are fine
]
failed = False
for sympy_expr, expected in cases:
    for backend in ("einsum", "libtensor"):
        try:
            code = generate_code(Expr(sympy_expr), "", backend=backend)
        except NotImplementedError:
            continue  # a refusal is acceptable
        total = Fraction(0)
        for line in code.split("\n")[2:]:
            line = line.split("#")[0].split("//")[0]
            line = re.sub(r'einsum\("ii->", hf.foo\)', "TRACE_F", line)
            line = line.replace("f_oo(i|i)", "TRACE_F")
            line = re.sub(r"(?<![\w.])(\d+\.\d+|\d+)(?![\w.])",
                          r"Fraction('\1')", line)
            total += eval(line, {"Fraction": Fraction, "TRACE_F": TRACE_F,
                                 **VALUES})
        if total != expected:
            failed = True
            print(f"{backend}: {sympy_expr}  with x=3, y=5, tr(f)=7: expected "
                  f"{expected}, the emitted code gives {total}:\n"
                  + "\n".join(code.split("\n")[2:]))
if failed:
    sys.exit(1)
print("OK")
