"""R06e/R13d homomorphism skeleton and A6 exponent accounting.

For a method ``m`` implemented on the four container levels:
  Expr     self._expr = Add(*[t.m(...) for t in self.terms])      (all terms, no filter)
           or an accumulation loop adding t.m(...) once on every path
  Term     Mul(*[o.m(...) for o in self.objects])                 (all objects)
  Polynom  Pow(Add(*[t.m(...) for t in self.terms]), self.exponent)
  Obj      every rebuilt value is Pow(<from base>, <exponent of the object>) or
           the untouched object ``self.sympy``
and parameters of the outer method that the inner method also has are
forwarded.
"""
from __future__ import annotations

import ast

from ..model import AnalysisError, U, Defs, calls_in, call_name, walk_fn
from ..pathcond import conditions
from . import common

MOD = "expr_container"


def _params(fn):
    return [a.arg for a in fn.args.args + fn.args.kwonlyargs]


def comp_call(node, ctor, iter_text, method):
    """Match ``ctor(*[x.method(...) for x in iter_text])`` -> the inner call."""
    if not (isinstance(node, ast.Call) and call_name(node) == ctor and len(node.args) == 1
            and isinstance(node.args[0], ast.Starred) and not node.keywords):
        return None, f"not `{ctor}(*[... for ... in {iter_text}])`"
    g = node.args[0].value
    if not isinstance(g, (ast.ListComp, ast.GeneratorExp)) or len(g.generators) != 1:
        return None, "not a single comprehension"
    gen = g.generators[0]
    if U(gen.iter) != iter_text:
        return None, f"iterates `{U(gen.iter)}` instead of `{iter_text}`"
    if gen.ifs:
        return None, f"filters elements with `{U(gen.ifs[0])}` (some are dropped)"
    e = g.elt
    if not (isinstance(e, ast.Call) and isinstance(e.func, ast.Attribute)
            and U(e.func.value) == U(gen.target) and e.func.attr == method):
        return None, f"element is `{U(e)}`, expected `{U(gen.target)}.{method}(...)`"
    return e, ""


def _forwarded(ctx, rule, call, outer, inner, level):
    ip = set(_params(inner))
    for p in _params(outer):
        if p in ("self", "return_sympy") or p not in ip:
            continue
        passed = any(U(a) == p for a in call.args) or any(U(k.value) == p and k.arg == p for k in call.keywords)
        # positional arguments must also land on the same parameter
        if passed and any(U(a) == p for a in call.args):
            pos = next(i for i, a in enumerate(call.args) if U(a) == p)
            inner_pos = [x for x in _params(inner) if x != "self"]
            passed = pos < len(inner_pos) and inner_pos[pos] == p
        ctx.check(rule, call, passed, f"{level}: parameter `{p}` forwarded",
                  f"{level}: parameter `{p}` of {outer.name} is not forwarded to the inner call `{U(call)}`",
                  key=f"{level} forward {p}")
    rs = [k for k in call.keywords if k.arg == "return_sympy"]
    if "return_sympy" in ip:
        ok = bool(rs) and U(rs[0].value) == "True"
        if not ok:
            # positional True at the right position
            inner_pos = [x for x in _params(inner) if x != "self"]
            i = inner_pos.index("return_sympy")
            ok = len(call.args) > i and U(call.args[i]) == "True"
        if not ok:
            d = inner.args.defaults
            names = [a.arg for a in inner.args.args]
            k = names.index("return_sympy") - (len(names) - len(d))
            ok = not rs and k >= 0 and U(d[k]) == "True"
        ctx.check(rule, call, ok, f"{level}: inner call returns raw sympy",
                  f"{level}: inner call `{U(call)}` does not request return_sympy=True", key=f"{level} raw")


def expr_level(ctx, rule, method, inner_method=None):
    fn = ctx.model.fn(f"{MOD}:Expr.{method}")
    inner = ctx.model.fn(f"{MOD}:Term.{inner_method or method}")
    m = inner_method or method
    defs = Defs(fn)
    stores = common.assigns_to(fn, "self._expr")
    if not stores:
        raise AnalysisError(f"Expr.{method}: no assignment to self._expr")
    ok_any = False
    for st in stores:
        v = defs.resolve(st.value)
        call, why = comp_call(v, "Add", "self.terms", m)
        if call is not None:
            ok_any = True
            ctx.ok(rule, st, f"Expr.{method}: sum of {m} over all terms")
            _forwarded(ctx, rule, call, fn, inner, f"Expr.{method}")
            continue
        # accumulation loop
        accname = U(st.value).split(".")[0]
        loops = [n for n in walk_fn(fn, nested=False) if isinstance(n, ast.For) and U(n.iter) == "self.terms"]
        done = False
        for lp in loops:
            t = U(lp.target)

            def is_event(n, t=t):
                return isinstance(n, ast.AugAssign) and isinstance(n.op, ast.Add) and U(n.target) == accname \
                    and any(isinstance(c, ast.Call) and isinstance(c.func, ast.Attribute) and c.func.attr == m
                            and U(c.func.value) == t for c in ast.walk(n.value))
            acc, drops = common.loop_conservation(ctx, rule, fn, lp, t, is_event=is_event)
            if acc is None and not drops:
                continue
            common.lost(ctx, rule, lp, t, drops)
            done = True
            ok_any = True
            for n in ast.walk(lp):
                if is_event(n):
                    c = next(c for c in ast.walk(n.value) if isinstance(c, ast.Call) and isinstance(c.func, ast.Attribute)
                             and c.func.attr == m)
                    _forwarded(ctx, rule, c, fn, inner, f"Expr.{method}")
            init = [a for a in common.assigns_to(fn, accname) if isinstance(a, (ast.Assign, ast.AnnAssign))]
            ctx.check(rule, lp, any(U(a.value) == "0" for a in init), f"Expr.{method}: accumulator starts at 0",
                      f"Expr.{method}: accumulator `{accname}` does not start at 0", key=f"Expr.{method} init")
        if not done:
            ctx.bad(rule, st, f"Expr.{method}: `self._expr = {U(st.value)}` is neither the sum of "
                    f"`t.{m}(...)` over all terms ({why}) nor an accumulation over self.terms",
                    key=f"Expr.{method} shape")
    return ok_any


def term_level(ctx, rule, method):
    fn = ctx.model.fn(f"{MOD}:Term.{method}")
    inner = ctx.model.fn(f"{MOD}:Obj.{method}")
    defs = Defs(fn)
    rets = common.returns_of(fn)
    n = 0
    for r in rets:
        v = r.value
        if isinstance(v, ast.Call) and call_name(v) == "Expr" and v.args:
            v = v.args[0]
        v = defs.resolve(v)
        call, why = comp_call(v, "Mul", "self.objects", method)
        n += 1
        if call is None:
            ctx.bad(rule, r, f"Term.{method}: returned value `{U(v)[:90]}` is not the product of "
                    f"`o.{method}(...)` over all objects ({why})", key=f"Term.{method} shape")
        else:
            ctx.ok(rule, r, f"Term.{method}: product of {method} over all objects")
            _forwarded(ctx, rule, call, fn, inner, f"Term.{method}")
    ctx.floor(rule, f"returns in Term.{method}", n, 1)


def polynom_level(ctx, rule, method):
    fn = ctx.model.fn(f"{MOD}:Polynom.{method}")
    inner = ctx.model.fn(f"{MOD}:Term.{method}")
    defs = Defs(fn)
    n = 0
    for r in common.returns_of(fn):
        v = r.value
        if isinstance(v, ast.Call) and call_name(v) == "Expr" and v.args:
            v = v.args[0]
        # the result variable is assigned twice (sum, then power): take the last
        if isinstance(v, ast.Name):
            asg = common.assigns_to(fn, v.id)
            if not asg:
                raise AnalysisError(f"Polynom.{method}: no definition of {v.id}")
            last = asg[-1].value
            first = asg[0].value
        else:
            last = first = v
        n += 1
        ok = isinstance(last, ast.Call) and call_name(last) == "Pow" and len(last.args) == 2 \
            and U(last.args[1]) == "self.exponent"
        ctx.check(rule, r, ok, f"Polynom.{method}: Pow(sum, self.exponent)",
                  f"Polynom.{method}: result `{U(last)[:80]}` does not restore the exponent of the polynom",
                  key=f"Polynom.{method} exponent")
        if ok:
            inner_sum = last.args[0]
            if isinstance(inner_sum, ast.Name):
                inner_sum = first
            call, why = comp_call(inner_sum, "Add", "self.terms", method)
            if call is None:
                ctx.bad(rule, r, f"Polynom.{method}: base is not the sum of `t.{method}(...)` over all terms ({why})",
                        key=f"Polynom.{method} shape")
            else:
                ctx.ok(rule, r, f"Polynom.{method}: sum over all terms")
                _forwarded(ctx, rule, call, fn, inner, f"Polynom.{method}")
    ctx.floor(rule, f"returns in Polynom.{method}", n, 1)


EXP_TEXTS = ("self.exponent", "self.base_and_exponent[1]")


def obj_level(ctx, rule, method, allow_zero=False, extra_full=()):
    """A6: values that become the result are FULL (`self.sympy`) or
    Pow(<built from the base>, <the object's exponent>)."""
    fn = ctx.model.fn(f"{MOD}:Obj.{method}")
    defs = Defs(fn)
    res_names = set()
    for r in common.returns_of(fn):
        v = r.value
        if isinstance(v, ast.Call) and call_name(v) == "Expr" and v.args:
            v = v.args[0]
        if isinstance(v, ast.Name):
            res_names.add(v.id)
        elif isinstance(v, ast.Tuple):
            continue
        else:
            _classify(ctx, rule, fn, defs, r, v, method, allow_zero, extra_full)
    n = 0
    for name in res_names:
        for a in common.assigns_to(fn, name):
            if isinstance(a, ast.AugAssign):
                continue
            n += 1
            _classify(ctx, rule, fn, defs, a, a.value, method, allow_zero, extra_full, name)
    ctx.floor(rule, f"result definitions in Obj.{method}", n, 1)


def _classify(ctx, rule, fn, defs, node, v, method, allow_zero, extra_full, name=None):
    t = U(v)
    if t == "self.sympy" or t in extra_full:
        ctx.ok(rule, node, f"Obj.{method}: untouched object kept with its exponent")
        return
    if allow_zero and t in ("0", "S.Zero"):
        ctx.ok(rule, node, f"Obj.{method}: zero")
        return
    if isinstance(v, ast.Call) and call_name(v) == "Pow" and len(v.args) == 2:
        e = U(defs.resolve(v.args[1]))
        base_t = U(defs.resolve(v.args[0]))
        neg = e.startswith("-")
        ok = e.lstrip("-") in EXP_TEXTS
        ctx.check(rule, node, ok, f"Obj.{method}: rebuilt value raised to the object's exponent",
                  f"Obj.{method}: rebuilt value is raised to `{U(v.args[1])}`, not to the exponent of the object",
                  key=f"Obj.{method} exponent")
        ctx.check(rule, node, "self.sympy" not in base_t or "self.sympy.args" in base_t,
                  f"Obj.{method}: base rebuilt from the base of the object",
                  f"Obj.{method}: the full object (base**exponent) is raised to the exponent again",
                  key=f"Obj.{method} double exponent")
        return
    if name is not None and isinstance(v, ast.Constant) and v.value in (None, False):
        return
    if name is not None and isinstance(v, ast.Call) and call_name(v) == "Pow":
        return
    # an intermediate value that is later wrapped (`res = S.Zero; res += ...; res = Pow(res, exp)`)
    later = [a for a in common.assigns_to(fn, name)] if name else []
    if name and any(isinstance(a.value, ast.Call) and call_name(a.value) == "Pow" and U(a.value.args[0]) == name
                    for a in later if isinstance(a, ast.Assign)):
        return
    ctx.bad(rule, node, f"Obj.{method}: result `{t[:80]}` is neither the untouched object nor "
            "Pow(<rebuilt base>, <exponent of the object>) (exponent lost)", key=f"Obj.{method} shape")


def skeleton(ctx, rule, method, expr=True, term=True, polynom=True, obj=True, allow_zero=False):
    if expr:
        expr_level(ctx, rule, method)
    if term:
        term_level(ctx, rule, method)
    if polynom:
        polynom_level(ctx, rule, method)
    if obj:
        obj_level(ctx, rule, method, allow_zero=allow_zero)


# =====================================================================================
# Evaluated containers (sa.symex): shared modelling helpers
# =====================================================================================

from ..symex import Symex, Obj, ClassRef, _freeze          # noqa: E402
from ..terms import T, sym, t_add, t_mul, t_pow, canon, show, args_of, is_num  # noqa: E402

EC = "expr_container"


def tensor_names_obj(model):
    """Abstract ``tensor_names`` instance carrying the default names declared in TensorNames."""
    cls = model.cls("tensor_names:TensorNames")
    o = Obj(None, "tensor_names")
    for st in cls.body:
        if isinstance(st, ast.AnnAssign) and isinstance(st.target, ast.Name) and isinstance(st.value, ast.Constant) \
                and isinstance(st.value.value, str):
            o.attrs[st.target.id] = st.value.value
    for need in ("fock", "eri", "gs_amplitude"):
        if need not in o.attrs:
            raise AnalysisError(f"TensorNames: no default for `{need}`")
    return o


def _arith_hooks():
    """sympy's Add / Mul / Pow as sum, product and power of terms."""
    def add(sx, a, kw):
        return t_add(*[_freeze(x) for x in a]) if not kw else NotImplemented

    def mul(sx, a, kw):
        return t_mul(*[_freeze(x) for x in a]) if not kw else NotImplemented

    def pow_(sx, a, kw):
        return t_pow(_freeze(a[0]), _freeze(a[1])) if not kw and len(a) == 2 else NotImplemented
    return {"Add": add, "Mul": mul, "Pow": pow_}


S_OBJ = Obj(None, "S", Zero=0, One=1, NegativeOne=-1)      # sympy's singletons as integers


def type_hook(sx, a, kw):
    """``type(x)`` of an abstract record that models its class is that class (same as ``x.__class__``)."""
    if len(a) == 1 and isinstance(a[0], Obj) and "__class__" in a[0].attrs:
        return a[0].attrs["__class__"]
    return NotImplemented


# =====================================================================================
# Concrete containers (sa.symex): the library is evaluated *through all container levels*
# on a small concrete model of a sympy expression, entered only through public methods.
#
# A sympy content is a term: ``add`` / ``mul`` / ``pow`` over leaves and numbers.  A leaf is an
# abstract record of a library class (a tensor built by evaluating the library's own
# constructor, a delta) embedded by its unique name; the model keeps the table name -> record.
# Container objects (Expr, Term, Obj, Polynom) are records created by evaluating the
# library's ``__new__`` / ``__init__``; ``len()``, ``__getattr__`` delegation and ``type()``
# follow the class definitions.  Nothing below names a private function of the library.
# =====================================================================================

import itertools as _it                                   # noqa: E402
from ..symex import Ext, Func, Raised                     # noqa: E402

_serial = _it.count(1)


class Concrete:
    """Concrete sympy model + evaluator for the container and tensor classes."""

    MODULES = (EC, "sympy_objects")

    def __init__(self, ctx, what, hooks=None, sort_fermions=None, **kw):
        self.ctx, self.model = ctx, ctx.model
        self.leaves = {}
        self.symbols = {}
        self.count = {}
        hk = _arith_hooks()
        hk["Add"] = lambda sx, a, kw_: self.add(*a) if not kw_ else NotImplemented
        hk.update({"tensor_names": tensor_names_obj(ctx.model), "S": S_OBJ, "sympify": self._sympify, "Symbol": self._sympify,
                   "Tuple": lambda sx, a, kw_: tuple(a) if not kw_ else NotImplemented, "super": self._super,
                   "len": self._len, "type": self._type})
        for base in ("object", "Expr", "Basic", "Function", "AtomicExpr"):      # allocation by an external base class
            hk[f"{base}.__new__"] = self._alloc_hook
        if sort_fermions is not None:
            hk["_sort_anticommuting_fermions"] = sort_fermions
        for mod in self.MODULES:
            for q in ctx.model.module(mod).classes:
                if "." not in q:
                    hk[f"{mod}:{q}"] = (lambda sx, a, kw_, mod=mod, q=q: self.instantiate(ClassRef(ctx.model.module(mod), q), a, kw_))
        # functools.cached_property: computed once per object (the value is kept on the record)
        for mod in self.MODULES:
            m = ctx.model.module(mod)
            for q, fn in m.functions.items():
                if q.count(".") == 1 and any(U(d).split(".")[-1] == "cached_property" for d in fn.decorator_list):
                    hk[q] = (lambda sx, a, kw_, fn=fn: self._cached(fn, a[0]))
        hk.update(hooks or {})
        self.sx = Symex(ctx.model, inline=lambda q: True, hooks=hk, what=what, attr_hook=self._attr,
                        isinstance_hook=self._isinstance, **kw)

        self.sx.compare_hook = self._compare

    def _compare(self, sx, opname, a, b, node):
        """Leaves and contents are values that exist (never None) and compare structurally like sympy objects."""
        if opname not in ("is", "is not", "==", "!="):
            return NotImplemented

        def known(x):
            return (isinstance(x, Obj) and x.name in self.leaves) or \
                (isinstance(x, T) and (x.op in ("add", "mul", "pow") or self.resolve(x) is not x))
        if (a is None and known(b)) or (b is None and known(a)):
            return opname in ("is not", "!=")
        if known(a) and known(b):
            return (self.value(a) == self.value(b)) == (opname in ("is", "=="))
        return NotImplemented

    def _cached(self, fn, obj):
        v = self.sx._invoke(Func(fn, [], fn._module, fn._qual, bound=obj), [], {}, None)
        if isinstance(obj, Obj):
            obj.attrs[fn.name] = v
        return v

    # ------------------------------------------------------------------ records
    def reset(self):
        self.leaves.clear()
        self.symbols.clear()
        self.count.clear()

    def alloc(self, cls, args=(), label=None):
        """A fresh record of the library class ``cls`` (ClassRef or an abstract class record)."""
        if isinstance(cls, Obj):
            cref = cls.attrs.get("$class")
        else:
            cref = cls
        if not isinstance(cref, ClassRef):
            raise AnalysisError(f"SX({self.sx.what}): allocation of an unknown class {cls!r}")
        ref = f"{cref.module.name}:{cref.qual}"
        o = Obj(ref, f"<{label or cref.short}#{next(_serial)}>")
        o.attrs["__class__"] = cref
        if cref.module.name == "sympy_objects":      # a sympy object: its constructor arguments are its ``args``
            o.attrs["args"] = tuple(args)
            self.leaves[o.name] = o
        return o

    def _alloc_hook(self, sx, a, kw):
        if a and isinstance(a[0], Obj) and a[0].name == "super":
            a = a[1:]
        if not a or kw:
            return NotImplemented
        return self.alloc(a[0], a[1:])

    def _super(self, sx, a, kw):
        o = Obj(None, "super")
        o.attrs["__new__"] = self._alloc_hook
        return o

    def _sympify(self, sx, a, kw):
        if len(a) != 1 or kw:
            return NotImplemented
        v = a[0]
        if isinstance(v, str):
            if v not in self.symbols:
                s = Obj(None, f"Symbol({v})")
                s.attrs.update(name=v, _classes=("Symbol",), is_number=False)
                self.symbols[v] = s
            return self.symbols[v]
        return v

    def instantiate(self, cref, args, kw):
        """``Class(*args)`` as python does it: ``__new__`` of the library evaluated, then ``__init__`` on the result if
        it is an instance of the class."""
        sx = self.sx
        ref = f"{cref.module.name}:{cref.qual}"
        self.count[cref.short] = self.count.get(cref.short, 0) + 1
        new = sx.find_method(ref, "__new__")
        if new is not None:
            fn = new[0]
            clsrec = Obj(ref, cref.short)          # the class object: classmethods called on it are bound to it
            clsrec.attrs["$class"] = cref
            r = sx._invoke(Func(fn, [], fn._module, fn._qual), [clsrec] + list(args), dict(kw), None)
        else:
            r = self.alloc(cref, args)
        if isinstance(r, Obj) and r.cls and (r.cls == ref or cref.short in sx._bases(r.cls)):
            init = sx.find_method(r.cls, "__init__")
            if init is not None:
                fn = init[0]
                sx._invoke(Func(fn, [], fn._module, fn._qual, bound=r), list(args), dict(kw), None)
        return r

    def construct(self, cls_name, *args, **kw):
        """The library's own constructor (to be called while an evaluation is running)."""
        mod = next(m for m in self.MODULES if cls_name in self.model.module(m).classes)
        return self.instantiate(ClassRef(self.model.module(mod), cls_name), list(args), kw)

    # ------------------------------------------------------------------ python protocol
    def _len(self, sx, a, kw):
        if len(a) == 1 and isinstance(a[0], Obj) and a[0].cls:
            m = sx.find_method(a[0].cls, "__len__")
            if m is not None:
                fn = m[0]
                return sx.call_value(Func(fn, [], fn._module, fn._qual, bound=a[0]), [], {}, None)
        if len(a) == 1 and isinstance(a[0], T) and a[0].op in ("add", "mul", "pow"):
            return len(a[0].args)
        return NotImplemented

    def _type(self, sx, a, kw):
        if len(a) != 1:
            return NotImplemented
        v = self.resolve(a[0])
        if isinstance(v, Obj) and "__class__" in v.attrs:
            return v.attrs["__class__"]
        if isinstance(v, T) and v.op in ("add", "mul", "pow"):
            return Ext({"add": "Add", "mul": "Mul", "pow": "Pow"}[v.op])
        if is_num(v):
            return Ext("Integer")
        return NotImplemented

    def resolve(self, v):
        """The record a leaf term stands for."""
        if isinstance(v, T) and v.op == "sym" and v.args[0] in self.leaves:
            return self.leaves[v.args[0]]
        return v

    def _attr(self, sx, obj, attr, node):
        if isinstance(obj, T):
            r = self.resolve(obj)
            if r is not obj:
                return sx.getattr(r, attr, node)
            if obj.op in ("add", "mul", "pow"):
                if attr == "args":
                    return tuple(self.resolve(x) for x in obj.args)
                if attr == "is_number":
                    return False
                if attr == "func":
                    return self._type(sx, [obj], {})
            return NotImplemented
        if isinstance(obj, Obj) and obj.cls:
            m = sx.find_method(obj.cls, "__getattr__")
            if m is not None and attr not in ("__class__",) and not (attr.startswith("__") and attr.endswith("__")):
                fn = m[0]
                return sx.call_value(Func(fn, [], fn._module, fn._qual, bound=obj), [attr], {}, node)
            if attr == "is_number" and obj.name in self.leaves:
                return False
        return NotImplemented

    def _isinstance(self, sx, obj, cname):
        if isinstance(obj, T):
            r = self.resolve(obj)
            if r is not obj:
                return cname == r.cls.split(":")[-1] or cname in sx._bases(r.cls) if r.cls else cname in r.attrs.get("_classes", ())
            if obj.op in ("add", "mul", "pow"):
                return cname in {"add": ("Add", "Expr", "Basic"), "mul": ("Mul", "Expr", "Basic"), "pow": ("Pow", "Expr", "Basic")}[obj.op]
        return False

    # ------------------------------------------------------------------ values
    def leaf_key(self, r):
        """Structural identity of a leaf record: class and constructor arguments."""
        r = self.resolve(r)
        if not isinstance(r, Obj):
            return r
        args = r.attrs.get("args", ())

        def k(x):
            if isinstance(x, (tuple, list)):
                return tuple(k(y) for y in x)
            if isinstance(x, Obj):
                return ("obj", x.attrs.get("name", x.name) if x.name.startswith("Symbol(") else x.name)
            return x
        return T("leaf", r.cls or r.name, k(args))

    def value(self, t):
        """Canonical structural text of a content (leaves by class and arguments)."""
        from ..terms import rebuild
        t = _freeze(t)

        def f(x):
            if x.op == "sym" and x.args[0] in self.leaves:
                return self.leaf_key(x)
            return x
        if isinstance(t, T):
            t = rebuild(t, f)
        return repr(canon(t))

    def show(self, t):
        return self.value(t)[:600]

    def add(self, *xs):
        """Sum as sympy builds it: equal summands are collected into one with a numeric coefficient."""
        t = t_add(*[_freeze(x) for x in xs])
        if not (isinstance(t, T) and t.op == "add"):
            return t
        groups, order, const = {}, [], 0
        for x in t.args:
            if is_num(x):
                const = const + x
                continue
            c, rest = 1, x
            if isinstance(x, T) and x.op == "mul" and is_num(x.args[0]):
                c, rest = x.args[0], t_mul(*x.args[1:])
            k = self.value(rest)
            if k not in groups:
                groups[k] = [0, rest]
                order.append(k)
            groups[k][0] = groups[k][0] + c
        return t_add(const, *[t_mul(groups[k][0], groups[k][1]) for k in order if groups[k][0] != 0])

    def map_leaves(self, t, fn):
        """Content with every leaf record r replaced by fn(r) (a content); everything else rebuilt as it is."""
        t = _freeze(t)
        if isinstance(t, T):
            if t.op == "sym":
                r = self.resolve(t)
                return _freeze(fn(r)) if r is not t else t
            if t.op == "add":
                return self.add(*[self.map_leaves(x, fn) for x in t.args])
            if t.op == "mul":
                return t_mul(*[self.map_leaves(x, fn) for x in t.args])
            if t.op == "pow":
                return t_pow(self.map_leaves(t.args[0], fn), self.map_leaves(t.args[1], fn))
        return t

    def run(self, build, call):
        """One evaluation: ``build()`` creates the model (constructors may be evaluated), ``call(built)`` performs the
        public calls; both run inside the evaluator.  Returns [(outcome, built)]."""
        sx = self.sx
        made = []

        def body():
            self.reset()
            b = build()
            made.append(b)
            return call(b)
        outs = sx._explore(lambda: self._enter(body))
        if len(outs) != len(made):
            raise AnalysisError(f"SX({sx.what}): {len(made)} evaluations, {len(outs)} outcomes")
        return list(zip(outs, made))

    def _enter(self, body):
        sx = self.sx
        sx.frames, sx.module = [{}], self.model.module(EC)
        return body()

    def call(self, recv, method, *args, **kw):
        """``recv.method(*args, **kw)`` evaluated."""
        return self.sx.call_method(recv, method, list(args), dict(kw), None)

    def get(self, recv, attr):
        return self.sx.getattr(recv, attr, None)
