"""C11 expanding / factoring / reducing intermediates: every clause is decided by abstract evaluation (sa.symex) of the
library functions on abstract terms, tensors and pools; the verdicts depend on what the functions compute, not on how the
source spells it."""
from __future__ import annotations

import ast
import re
from fractions import Fraction

from ..symex import Symex, Obj, Func
from ..terms import (T, sym, show, subterms, args_of, strip, expand_products, canon, is_num, t_mul, t_add, t_pow)
from ..model import AnalysisError, U
from . import c08, c13

EXPLANATION = (
    "All clauses are decided by evaluating the library functions abstractly (sa.symex): arguments are abstract records and "
    "symbolic terms, the expensive primitives (term comparison, index generation, sympy objects, the intermediates' "
    "definitions) are modelled or left uninterpreted, and the evaluated results are compared with the expected behaviour. "
    "R11a: RegisteredIntermediate.expand_itmd evaluated for definitions with/without contracted indices (also with spin): "
    "the result is base.subs(ordered {target_k -> requested_k, contracted -> index generated for THIS call, same (space, "
    "spin), pairwise different}) wrapped with the requested indices as targets; fully_expand reaches the definition; spin "
    "indices, surplus generated indices and substitutions that annihilate a non-zero definition are refused on exactly those "
    "paths; the same holds when the definition's own default indices are requested (wholly, partly, permuted): the summation "
    "indices are replaced all the same; two consecutive expansions (other names / default indices / one then the other, "
    "fully_expand True, False, symbolic) carry freshly generated, mutually disjoint contracted indices, never the "
    "definition's own summation symbols (functions behind caching decorators are evaluated "
    "once per argument tuple); validate_indices as a decision table (accepted iff same length and position-wise same "
    "space, order kept). R11b: value conservation of the factorisation. t2_1.factor_itmd on concrete terms (integral "
    "exponents, bracket exponents, matching/non-matching brackets): integral, bracket and amplitude are exchanged equally "
    "often, the rest of the term is kept, early exits as a decision table. _factor_short_intermediate on abstract terms with "
    "scripted variants (one, same objects, disjoint objects, overlapping, none, two terms): on every path every term enters "
    "the sum once, unchanged or as _build_factored_term(remainder, term.pref*factor/itmd.pref, cls, images of the default "
    "indices) with all four read off ONE variant and off the sign-canonical split that was compared; a variant that puts a "
    "contracted index of the intermediate on a target index of the term is never accepted (scenarios with concrete target "
    "indices; with symbolic targets the accepting path must carry the decision `image not in term.eri.target` for every "
    "contracted index); the long factorisation files no such match in the pool either. The index map of an accepted variant is "
    "injective on the summed indices of the definition: variants in which two contracted indices, or a contracted and a target "
    "index of the intermediate, land on one index are never accepted (coinciding TARGET indices still are); variants whose "
    "contracted index occurs in the remainder are skipped without raising (concrete remainder indices; with symbolic ones the "
    "accepting path carries the decision); in the long factorisation a match whose itmd indices are reordered by the tensor "
    "symmetry (alias of the match at another position) does not enter the pool. "
    "_factor_long_intermediate: every match filed in the pool has prefactor term.pref*f/(n*itmd.pref), unit prefactor "
    "itmd.pref*f*n (f = variant factor * sign of the minimised tensor), remainder/indices of its own variant; the result is "
    "the two factorisation passes plus every term they did not consume, once. _factor_complete / _factor_mixed_prefactors "
    "on a pool model: one factored term per variant, used terms marked and removed before the next variant, mixed "
    "prefactors completed by (pref - common*unit)*term once per deviating term. factor_itmd: candidates through the "
    "short/long factorisation (definition prepared for the already factored intermediates, max_order//order repetitions), "
    "the rest added back, nothing-to-do table. factor_intermediates: requested intermediates (max_order filter) factored in "
    "sequence on the running expression, each told its predecessors. R11c: _build_factored_term over a table of tensor "
    "names, also for -tensor (non-canonical itmd indices): 0 exactly for 'Zero', remainder*pref*tensor otherwise; only re_residual classes build 'Zero'. R11d: every "
    "_build_expanded_itmd evaluated for both levels: referenced intermediates enter as X.expand_itmd (fully expanding) / "
    "X.tensor (residuals always .tensor) and both levels are the same formula. R11e/R11f: every _build_tensor is evaluated, "
    "the tensor is constructed through the evaluated constructors of sympy_objects (canonical sort, bra-ket swap), its "
    ".idx and Obj.longname(use_default_names=True) are evaluated (default and renamed tensor_names): long name = class "
    "name, read-back index order = _default_idx, construction keeps groups and sign, every index used once; registry "
    "flattening, registration and the look-up in Obj.expand_intermediates are evaluated. R11h: remove_used_terms / "
    "clean_empty on ~45 concrete pools x 5 used-term sets against their specification. R11i: LongItmdVariants.add on a "
    "decision table of stored remainders, signs and duplicates: both stored prefactors carry the sign of the remainder "
    "mapping. R11j: _compare_remainder evaluated on a table of remainder pairs over a concrete expression model (a - b combines "
    "identical terms, factor_eri_parts groups by tensor part up to renaming of the non-fixed indices and renames the complete "
    "term, factor_denom groups by denominator): identical, negated, numbers, renamed/crossed contracted indices, same tensors "
    "with another / a missing / a squared denominator, other tensors, exchanged itmd or target indices: the result is +1/-1 "
    "exactly when remainder = +-reference in value with target and itmd indices fixed (both remainders get exactly these "
    "fixed indices), None otherwise; vanishing remainders are refused. R11k: _compare_terms evaluated on concrete bracket worlds "
    "(term bracket powers 1..3 against intermediate powers 1..2, two itmd brackets, several ERI variants, missing partner, wrong "
    "length, invalid substitution, no denominator): every variant schedules each matching term bracket for cancellation as often "
    "as the INTERMEDIATE holds it (the factored term keeps power term - itmd), one term bracket per itmd bracket, ERI data handed "
    "through, None without a complete assignment. R13d/R13g/R13h/R08a/R19c (owned elsewhere): expansion skeleton, reduce_expr bookkeeping, fraction "
    "cancellation, ordered substitutions, registry look-ups by default names.")
ASSUMPTIONS = [
    "the matching logic itself (_compare_eri_parts, _map_on_other_terms, minimize_tensor_indices, the search in "
    "LongItmdVariants.get_complete_variant/get_mixed_pref_variant, factor_denom) is a runtime statement and not decided; the "
    "rules decide that whatever these return is used consistently and conservatively",
    "the round trip factor(expand(x)) = x on concrete expressions (e.g. the raw output of expand_intermediates().expand() with two "
    "terms that are equal up to the names of contracted indices) is a runtime statement; decided here are the clauses it rests on "
    "(injective index maps, no alias registration, conservation, prefactor formulas, pool bookkeeping)",
    "the value-preserving nature of EriOrbenergy(term).canonicalize_sign(), .expand(), Expr(...) and term.cancel_*() is assumed "
    "(they are treated as transparent wrappers / uninterpreted factors)",
    "scenarios are bounded: at most two terms per expression in the short factorisation, four in the long one, pools of at most "
    "three itmd-index keys; integral/bracket exponents up to 2 (3 for a non-matching bracket)",
    "which candidate terms/variants are chosen (relevance filter of factor_itmd, prescans, minimal-overlap choice) is only "
    "constrained as far as the value of the result depends on it; factor_itmd's split is compared with its documented filter",
    "R11j: tensors of the remainder model carry no permutational symmetry (renamings are unique), every remainder is a single term",
    "sympy primitives are modelled: sympify, Tuple, _sort_anticommuting_fermions (stable sort by the library's own key "
    "function, which is evaluated), object creation by super().__new__; S.Zero/S.One/S.NegativeOne are pairwise distinct",
]

IT = "intermediates:RegisteredIntermediate."
FI = "factor_intermediates:"


# ---------------------------------------------------------------------------
# abstract values shared by the scenarios


def rec(_cls, _name, **attrs):
    """abstract record whose attributes may be called ``name``/``cls``"""
    o = Obj(_cls, _name)
    o.attrs.update(attrs)
    return o


_INDEX = {}


def mk_index(name, space=None, spin=""):
    """Abstract ``Index``: an (interned, never mutated) record with the attributes the library reads; two records are
    the same index iff they are the same object."""
    space = space or space_name(name)
    key = (name, space, spin)
    if key not in _INDEX:
        o = Obj(None, name)
        o.attrs.update(name=name, space=space, spin=spin, space_and_spin=(space, spin), _classes=("Index",), dummy_index=0)
        _INDEX[key] = o
    return _INDEX[key]


def space_name(n):
    return "occ" if n[0] in "ijklmno" else "virt" if n[0] in "abcdefgh" else "general"


def split_names(x):
    return re.findall(r"[a-z]\d*", x)


def get_symbols_model(sx, a, kw):
    """get_symbols: names -> Index records (records pass through)."""
    x = a[0] if a else kw.get("indices")
    if isinstance(x, T):
        return NotImplemented
    if isinstance(x, Obj):
        return [x]
    if isinstance(x, str):
        x = split_names(x)
    return tuple(mk_index(n) if isinstance(n, str) else n for n in x)


class IndexSource:
    """Model of ``Indices().get_generic_indices``: every call hands out names never handed out before (per path);
    ``surplus`` > 0 models a generator that returns more than requested."""

    def __init__(self, surplus=0):
        self.surplus = surplus
        self.reset()

    def reset(self, sx=None):
        self.calls = []          # one dict name -> (space, spin) per call
        self.requests = []

    def __call__(self, sx, a, kw):
        if any(isinstance(v, T) for v in kw.values()) or "**" in kw:
            return NotImplemented
        n_call = len(self.calls)
        made, out = {}, {}
        self.requests.append(dict(kw))
        for k, n in kw.items():
            parts = k.split("_")
            sp, spin = (parts[0], parts[1]) if len(parts) == 2 else (parts[0], "")
            if n == 0:
                continue
            lst = []
            for i in range(n + self.surplus):
                nm = f"<gen{n_call}.{sp}{'_' + spin if spin else ''}.{i}>"
                lst.append(mk_index(nm, sp, spin))
                made[nm] = (sp, spin)
            out[(sp, spin)] = lst
        self.calls.append(made)
        return out


CACHE_DECORATORS = ("cached_member", "cached_property", "cache", "lru_cache")


def memo_hooks(model, modules, vocabulary=()):
    """Functions behind a caching decorator evaluate once per argument tuple: the second call returns the first result
    without re-running the body (so effects such as index generation inside them happen once)."""
    hooks, memo = {}, {}
    for mod in modules:
        m = model.module(mod)
        for q, fn in m.functions.items():
            decos = [U(d).split("(")[0].split(".")[-1] for d in fn.decorator_list]
            if not any(d in CACHE_DECORATORS for d in decos) or q.split(".")[-1] in vocabulary:
                continue

            def hook(sx, a, kw, fn=fn, q=f"{mod}:{q}"):
                from ..symex import _freeze
                key = (q, repr(_freeze(list(a))), repr(sorted((k, repr(_freeze(v))) for k, v in kw.items())))
                if key not in memo:
                    bound = a[0] if a and fn.args.args and fn.args.args[0].arg in ("self", "cls") else None
                    f = Func(fn, [], fn._module, fn._qual, bound=bound)
                    memo[key] = sx._invoke(f, list(a[1:]) if bound is not None else list(a), kw, fn)
                return memo[key]
            hooks[f"{mod}:{q}"] = hook
            if "." in q:
                hooks[".".join(q.split(".")[-2:])] = hook
    return hooks, memo


def dict_of(t):
    """python dict of a frozen ``dict`` term."""
    if isinstance(t, T) and t.op == "dict":
        return dict(t.args)
    return None


def nm(x):
    return x.args[0] if isinstance(x, T) and x.op == "sym" else x.name if isinstance(x, Obj) else x


# ---------------------------------------------------------------------------
# R11a expansion of a definition on requested indices

EXPAND_VOCAB = {"get_symbols", "order_substitutions", "_build_expanded_itmd", "get_generic_indices"}


def _expand_sx(ctx, src, build, what):
    hooks, memo = memo_hooks(ctx.model, ["intermediates"], EXPAND_VOCAB)
    hooks.update({"get_symbols": get_symbols_model, "get_generic_indices": src, "_build_expanded_itmd": build})
    sx = Symex(ctx.model, inline=lambda q: q.split(":")[-1].split(".")[-1] not in EXPAND_VOCAB, hooks=hooks, what=what,
               max_paths=4096)

    def start(sx_):
        src.reset()
        memo.clear()
    sx.on_start = start
    return sx


def _subs_of(value):
    """(base, substitution dict, simultaneous/ordered) of ``base.subs(order_substitutions(D))`` | ``base.subs(D, simultaneous=True)``."""
    if not (isinstance(value, T) and value.op == "mcall" and value.args[1] == "subs"):
        return None
    a = args_of(value)
    arg = a.get(0)
    if isinstance(arg, T) and arg.op == "call" and arg.args[0] == "order_substitutions":
        d = dict_of(args_of(arg).get("subsdict", args_of(arg).get(0)))
        return (value.args[0], d, True) if d is not None else None
    d = dict_of(arg)
    if d is not None:
        return value.args[0], d, a.get("simultaneous") is True
    return None


def _check_expansion(ctx, rule, fn, what, sub, src_call, targets, requested, contracted, key):
    """the substitution of one expansion: targets by position, every contracted index onto its own fresh index."""
    base, d, ordered = sub
    d = {nm(k): nm(v) for k, v in d.items()}
    want_t = {t: r for t, r in zip(targets or (), requested) if t != r}
    got_t = {k: v for k, v in d.items() if k in (targets or ()) and k != v}      # identity entries carry no information
    ctx.check(rule, fn, got_t == want_t and (targets is None or len(targets) == len(requested)),
              f"{what}: base targets -> requested indices by position",
              f"{what}: the target indices of the definition are mapped {got_t}, expected {want_t}", key=f"target map {key}")
    got_c = {k: v for k, v in d.items() if k not in (targets or ())}
    cnames = [c for c, _ in contracted or ()]
    ok = sorted(got_c) == sorted(cnames)
    why = f"{what}: substituted contracted indices {sorted(got_c)}, the definition contracts {sorted(cnames)}"
    if ok:
        imgs = list(got_c.values())
        if len(set(imgs)) != len(imgs):
            ok, why = False, f"{what}: two contracted indices share one replacement: {got_c}"
        for c, ss in contracted or ():
            g = src_call.get(got_c[c])
            if g is None:
                ok, why = False, (f"{what}: contracted index {c} is replaced by `{got_c[c]}`, which was not generated for this "
                                  "expansion (indices of two expansions coincide: an index then occurs four times in a product)")
                break
            if g != ss:
                ok, why = False, f"{what}: contracted index {c} {ss} is replaced by an index of {g}"
                break
    ctx.check(rule, fn, ok, f"{what}: one fresh generic index per contracted index, same (space, spin), all different", why,
              key=f"contracted map {key}")
    ctx.check(rule, fn, ordered, f"{what}: substitution executed as a simultaneous one (ordered)",
              f"{what}: the substitution dict is applied sequentially without ordering", key=f"ordered {key}")
    return base


def r11a(ctx):
    rule = "R11a"
    fn = ctx.model.fn(IT + "expand_itmd")
    tnames, cn = ("i", "j", "a", "b"), (("k", ("occ", "")), ("c", ("virt", "")), ("l", ("occ", "")))
    state = {}

    def scenario(targets, contracted, requested, return_sympy, spin_at=None):
        def build(sx, a, kw):
            state["level"] = (a[1:], dict(kw))
            return Obj(None, "base", expr=sym("BASE"), target=None if targets is None else tuple(mk_index(t) for t in targets),
                       contracted=None if contracted is None else tuple(mk_index(c, s[0], s[1]) for c, s in contracted))

        def args():
            ind = tuple(mk_index(r, spin="a" if spin_at == k else "") for k, r in enumerate(requested))
            return dict(self=Obj("intermediates:t2_2", "self", _default_idx=tnames), indices=ind, return_sympy=return_sympy,
                        fully_expand=sym("LEVEL"))
        return build, args

    def run(src, build, args, what):
        sx = _expand_sx(ctx, src, build, what)
        return sx.run(fn, args)

    for targets, contracted, rs, tag, req in (
            (tnames, cn, False, "full", ("m", "n", "e", "f")), (tnames, cn, True, "sympy", ("m", "n", "e", "f")),
            (tnames, None, True, "no contraction", ("m", "n", "e", "f")),
            (tnames, (("k", ("occ", "")), ("c", ("virt", "b")), ("d", ("virt", ""))), True, "spin", ("m", "n", "e", "f")),
            # the request with the definition's own (default) target indices: the summation indices still have to be replaced
            (tnames, cn, True, "default indices", tnames), (tnames, cn, False, "default indices, wrapped", tnames),
            (tnames, cn, True, "partly default indices", ("i", "n", "a", "f")), (tnames, cn, True, "permuted default indices", ("j", "i", "b", "a")),
            (tnames, None, True, "default indices, no contraction", tnames)):
        src = IndexSource()
        build, args = scenario(targets, contracted, req, rs)
        outs = run(src, build, args, f"expand_itmd[{tag}]")
        rets = [o for o in outs if o.kind == "return"]
        ctx.check(rule, fn, len(rets) >= 1, f"[{tag}] a valid request is expanded",
                  f"expand_itmd[{tag}] refuses a valid request on every path: {outs[:3]}", key=f"returns {tag}")
        for n_o, o in enumerate(outs):
            # src state belongs to the last path only -> recompute from the names (self-describing)
            gen = {}
            for t in subterms(o.value) if o.kind == "return" else ():
                if t.op == "sym" and str(t.args[0]).startswith("<gen"):
                    _, sp, _ = str(t.args[0])[1:-1].split(".")
                    gen[t.args[0]] = tuple(sp.split("_")) if "_" in sp else (sp, "")
            zero = [a for a, pol in o.path if pol and a.op == "cmp" and a.args[0] == "is" and any(
                isinstance(x, T) and show(x).endswith("S.Zero") for x in a.args[1:])]
            if o.kind == "raise":
                # refused exactly when the substituted definition vanishes although the definition does not
                vanished = [a for a in zero if any(isinstance(x, T) and x.op == "mcall" and x.args[1] == "subs" for x in a.args[1:])]
                base_nz = any(not pol and a.op == "cmp" and a.args[0] == "is" and sym("BASE") in a.args[1:] for a, pol in o.path)
                ctx.check(rule, fn, o.exc == "ValueError" and vanished and base_nz, f"[{tag}] annihilating substitution refused",
                          f"expand_itmd[{tag}] raises {o.exc} on the path {o.path!r}", key=f"zero guard {tag} {n_o}")
                continue
            v = o.value
            if not rs:
                okw = isinstance(v, T) and v.op == "call" and v.args[0] == "Expr"
                tgt = args_of(v).get("target_idx") if okw else None
                ctx.check(rule, fn, okw and tuple(nm(x) for x in (tgt or ())) == req, f"[{tag}] result carries the requested indices as targets",
                          f"expand_itmd[{tag}]: wrapped result has target indices {show(tgt)}, expected {req}", key=f"targets {tag} {n_o}")
                v = args_of(v).get("e", args_of(v).get(0)) if okw else v
            sub = _subs_of(v)
            if sub is None:
                ctx.bad(rule, fn, f"expand_itmd[{tag}] does not return the substituted definition: {show(v)[:200]}", key=f"apply {tag} {n_o}")
                continue
            base = _check_expansion(ctx, rule, fn, f"expand_itmd[{tag}]", sub, gen, targets, req, contracted, key=f"{tag} {n_o}")
            ctx.check(rule, fn, base == sym("BASE"), f"[{tag}] applied to the cached base expression",
                      f"expand_itmd[{tag}] substitutes in {show(base)[:120]}", key=f"apply {tag} {n_o}")
            # vanishing result without a vanishing definition must not be returned
            bad = [a for a in zero if any(isinstance(x, T) and x.op == "mcall" and x.args[1] == "subs" for x in a.args[1:])] and \
                any(not pol and a.op == "cmp" and a.args[0] == "is" and sym("BASE") in a.args[1:] for a, pol in o.path)
            ctx.check(rule, fn, not bad, f"[{tag}] no vanishing expansion of a non-vanishing definition returned",
                      f"expand_itmd[{tag}] returns although the substitution annihilated the definition", key=f"zero guard ret {tag} {n_o}")
        raised = [o for o in outs if o.kind == "raise"]
        ctx.check(rule, fn, len(raised) >= 1, f"[{tag}] substitution that annihilates the definition is refused",
                  f"expand_itmd[{tag}]: no path refuses a substitution that turns a non-zero definition into zero", key=f"zero guard {tag}")
        lv = state.get("level")
        ctx.check(rule, fn, lv is not None and (list(lv[0]) == [sym("LEVEL")] or lv[1].get("fully_expand") == sym("LEVEL")),
                  f"[{tag}] base expression of the requested expansion level",
                  f"expand_itmd[{tag}]: _build_expanded_itmd is called with {lv}; fully_expand is not forwarded to the definition",
                  key=f"level {tag}")
    # refusals
    req = ("m", "n", "e", "f")
    src = IndexSource()
    build, args = scenario(tnames, cn, req, True, spin_at=2)
    outs = run(src, build, args, "expand_itmd[spin index]")
    ctx.check(rule, fn, outs and all(o.kind == "raise" and o.exc == "NotImplementedError" for o in outs), "indices with spin refused",
              f"expand_itmd accepts a requested index with spin: {outs}", key="spin")
    src = IndexSource(surplus=1)
    build, args = scenario(tnames, cn, req, True)
    outs = run(src, build, args, "expand_itmd[surplus]")
    ctx.check(rule, fn, outs and all(o.kind == "raise" and o.exc == "RuntimeError" for o in outs), "surplus fresh indices are an error",
              f"expand_itmd does not refuse left-over generated indices: {outs}", key="surplus")
    _r11a_twice(ctx)
    _r11a_validate(ctx)


def _r11a_twice(ctx):
    """two expansions in one run (call history): whatever indices are requested - other names, the definition's own default
    indices, first one then the other - and whatever the expansion level, each result carries its own contracted indices,
    generated for that call: not the summation symbols of the definition, not those of the other expansion"""
    rule = "R11a"
    fn = ctx.model.fn(IT + "expand_itmd")
    cn = (("k", ("occ", "")), ("c", ("virt", "")))
    own = {c for c, _ in cn}

    def images(v):
        """contracted indices of one expansion result (an unsubstituted definition keeps its own)"""
        sub = _subs_of(v)
        if sub is not None:
            return {nm(sub[1].get(mk_index(c).term, mk_index(c).term)) for c in own}, sub[0]
        return (set(own), v) if v == sym("BASE") else (None, v)
    for first, second in (("mnef", "mnef"), ("ijab", "ijab"), ("ijab", "mnef"), ("mnef", "ijab"), ("ijab", "jiba")):
        for level in (sym("LEVEL"), True, False):
            src = IndexSource()

            def build(sx, a, kw):
                return Obj(None, "base", expr=sym("BASE"), target=tuple(mk_index(t) for t in "ijab"),
                           contracted=tuple(mk_index(c, s[0], s[1]) for c, s in cn))
            sx = _expand_sx(ctx, src, build, "expand_itmd twice")
            drv = ast.parse("r1 = self.expand_itmd(indices=I1, return_sympy=True, fully_expand=LEVEL)\n"
                            "r2 = self.expand_itmd(indices=I2, return_sympy=True, fully_expand=LEVEL)\n").body
            outs = sx.run_block(fn, drv, lambda: dict(self=Obj("intermediates:t2_2", "self", _default_idx=tuple("ijab")), LEVEL=level,
                                                      I1=tuple(mk_index(x) for x in first), I2=tuple(mk_index(x) for x in second)))
            done = [o for o in outs if o.kind == "fall"]
            tag = f"{first} then {second}, fully_expand={show(level) if isinstance(level, T) else level}"
            ctx.check(rule, fn, len(done) >= 1, f"two consecutive expansions complete [{tag}]", f"two consecutive expansions [{tag}]: {outs[:3]}",
                      key=f"twice returns {tag}")
            for n_o, o in enumerate(done):
                (i1, b1), (i2, b2) = images(o.env["r1"]), images(o.env["r2"])
                if i1 is None or i2 is None or b1 != sym("BASE") or b2 != sym("BASE"):
                    ctx.bad(rule, fn, f"two expansions [{tag}]: result is not the (substituted) definition: {show(o.env['r1'])[:120]} / "
                            f"{show(o.env['r2'])[:120]}", key=f"twice shape {tag} {n_o}")
                    continue
                why = None
                if (i1 | i2) & own:
                    why = (f"the summation indices {sorted((i1 | i2) & own)} of the definition leak into the result (request {first} / {second}): "
                           "in a product with another expansion or with any tensor that carries these names an index occurs more than twice")
                elif i1 & i2:
                    why = (f"two expansions of the same intermediate share the contracted indices {sorted(i1 & i2)} (generated once and "
                           "re-used): in a product of two such factors an index occurs four times")
                elif len(i1) != len(own) or len(i2) != len(own) or not all(str(x).startswith("<gen") for x in i1 | i2):
                    why = f"contracted indices {sorted(map(str, i1))} / {sorted(map(str, i2))} are not one generated index per summation index"
                ctx.check(rule, fn, why is None, f"two expansions [{tag}] use disjoint, freshly generated contracted indices",
                          f"two expansions [{tag}]: {why}", key=f"twice {tag} {n_o}")


def _r11a_validate(ctx):
    rule = "R11a"
    vi = ctx.model.fn(IT + "validate_indices")
    default = ("i", "j", "a", "b")
    hooks = {"get_symbols": get_symbols_model}
    sx = Symex(ctx.model, inline=lambda q: q.split(".")[-1] not in ("get_symbols",), hooks=hooks, what="validate_indices")
    table = [(None, True), ("klcd", True), ("ijab", True), ("kl", False), ("klcde", False), ("", False)]
    for pos in range(4):
        bad = list("klcd")
        bad[pos] = "c" if pos < 2 else "k"
        table.append(("".join(bad), False))
    table += [("cdkl", False), ("kcld", False)]
    for given, valid in table:
        outs = sx.run(vi, lambda: dict(self=Obj("intermediates:t2_2", "self", _default_idx=default),
                                       indices=None if given is None else tuple(mk_index(x) for x in split_names(given))))
        if valid:
            want = list(default if given is None else split_names(given))
            ok = len(outs) == 1 and outs[0].kind == "return" and not isinstance(outs[0].value, T) and \
                [nm(x) for x in outs[0].value] == want
            ctx.check(rule, vi, ok, f"indices {given!r} accepted and returned in the given order",
                      f"validate_indices({given!r}) for defaults {default}: {outs}", key=f"validate {given}")
        else:
            ctx.check(rule, vi, outs and all(o.kind == "raise" for o in outs),
                      f"indices {given!r} refused (number / position-wise space differ from {''.join(default)})",
                      f"validate_indices accepts {given!r} for the default indices {''.join(default)}: the definition would be "
                      "expanded on indices of the wrong space", key=f"validate {given}")


# ---------------------------------------------------------------------------
# R11b: factoring conserves the value (every term of the input enters the result exactly once, unchanged or as
# remainder * prefactor * tensor with a prefactor that makes the product equal to the term)

FACTOR_VOCAB = {"_compare_terms", "_get_remainder", "_build_factored_term", "get_symbols", "_factor_short_intermediate",
                "_factor_long_intermediate", "EriOrbenergy", "FactorizationTermData", "_factor_complete", "_factor_mixed_prefactors",
                "_map_on_other_terms", "minimize_tensor_indices", "_compare_remainder", "LongItmdVariants", "order_substitutions",
                "_prepare_itmd", "itmd_term_map"}
TERM_WRAPPERS = dict(calls=("EriOrbenergy", "Expr"), mcalls=("canonicalize_sign", "expand"), attrs=("expr", "sympy"))


def factor_inline(q):
    return q.split(":")[-1].split(".")[-1] not in FACTOR_VOCAB


def unwrap(t):
    """value-preserving wrappers of a term removed (splitting into EriOrbenergy, sign canonicalisation, .expr/.sympy, Expr)"""
    return strip(t, **TERM_WRAPPERS)


def peel(t):
    """outermost value-preserving wrappers removed (the arguments of what is inside stay as they are)"""
    while isinstance(t, T):
        if t.op == "call" and t.args[0] in TERM_WRAPPERS["calls"]:
            a = args_of(t)
            t = a.get(0, next(iter(a.values()), None) if a else None)
        elif t.op == "mcall" and t.args[1] in TERM_WRAPPERS["mcalls"]:
            t = t.args[0]
        elif t.op == "attr" and t.args[1] in TERM_WRAPPERS["attrs"]:
            t = t.args[0]
        else:
            break
    return t


def split_sum(v):
    if isinstance(v, T) and v.op == "add":
        return [x for x in v.args if not (is_num(x) and x == 0)]
    return [] if (is_num(v) and v == 0) else [v]


def is_canonical_split(term, src):
    """``term`` is EriOrbenergy(src) with the sign canonicalised"""
    return isinstance(term, T) and term.op == "mcall" and term.args[1] == "canonicalize_sign" and \
        isinstance(term.args[0], T) and term.args[0].op == "call" and term.args[0].args[0] == "EriOrbenergy" and unwrap(term) == src


def same_product(a, b):
    return repr(canon(a)) == repr(canon(b))


def _abstract_expr(name, terms, is_number=False):
    o = Obj(None, name)
    o.attrs.update(terms=terms, sympy=Obj(None, f"{name}.sympy", is_number=is_number), assumptions=sym(f"{name}.assumptions"))
    return o


def _variant(eri_i, denom_i, sub, factor):
    return {"eri_i": list(eri_i), "denom_i": list(denom_i), "sub": {mk_index(k): mk_index(v) for k, v in sub.items()},
            "sub_list": sym("SUB_LIST"), "factor": factor}


SHORT_SCENARIOS = {
    # name: (default idx, contracted idx of the itmd, itmd has a denominator, variants per term)
    "one variant": ("ia", "k", True, [[((0,), (0,), {"i": "m", "a": "e"}, "F0")]]),
    "same objects": ("ia", "k", True, [[((0,), (0,), {"i": "m", "a": "e"}, "F0"), ((0,), (0,), {"i": "l", "a": "d"}, "F1")]]),
    "disjoint objects": ("ijab", "", True, [[((0,), (0,), {"i": "m", "j": "n"}, "F0"), ((1,), (1,), {"i": "k", "a": "c"}, "F1")]]),
    "overlapping objects": ("ia", "kc", True, [[((0, 1), (0,), {"i": "m"}, "F0"), ((1, 2), (0,), {"i": "n"}, "F1"), ((3,), (1,), {"a": "e"}, "F2")]]),
    "no denominator": ("ia", "k", False, [[((0, 0), (), {"i": "m"}, "F0")]]),
    "no match": ("ia", "k", True, [None]),
    "two terms": ("ia", "k", True, [[((0,), (0,), {"i": "m"}, "F0")], [((2,), (1,), {"a": "e"}, "G0")]]),
    "second term unmatched": ("ia", "k", True, [[((1,), (0,), {"i": "m"}, "F0")], None]),
    # concrete target indices of the terms: a contracted index of the itmd that lands on one of them is not summed in the term
    "contracted index is a target": ("ia", "k", True, [[((0,), (0,), {"i": "m", "k": "x"}, "F0"), ((1,), (0,), {"i": "n", "k": "o"}, "F1")]], "xy"),
    "only variant sums a target": ("ia", "k", True, [[((0,), (0,), {"i": "m", "k": "x"}, "F0")]], "xy"),
    "unsubstituted contracted index is a target": ("ia", "kc", True, [[((0,), (0,), {"i": "m", "k": "l"}, "F0"), ((1,), (1,), {"k": "l", "c": "d"}, "F1")]], "cy"),
    "two terms, one sums a target": ("ia", "k", True, [[((0,), (0,), {"k": "y"}, "F0")], [((2,), (1,), {"a": "e", "k": "n"}, "G0")]], "xy"),
    "targets untouched": ("ia", "k", True, [[((0,), (0,), {"i": "x", "k": "n"}, "F0")]], "xy"),
    # the index map of a variant has to be injective on the contracted indices of the definition
    "contracted indices coincide": ("ia", "kl", True, [[((0,), (0,), {"i": "m", "k": "n", "l": "n"}, "F0"), ((1,), (0,), {"i": "m", "k": "n", "l": "o"}, "F1")]]),
    "contracted index on an itmd target index": ("ia", "k", True, [[((0,), (0,), {"i": "m", "k": "m"}, "F0")]]),
    "contracted index on an unsubstituted itmd target index": ("ia", "kc", True, [[((0,), (0,), {"i": "m", "c": "a"}, "F0"), ((2,), (0,), {"i": "m", "c": "e"}, "F1")]]),
    "target indices coincide": ("ijab", "k", True, [[((0,), (0,), {"i": "m", "j": "m"}, "F0")]]),
    # concrete indices of the remainder (per removed objects): the remainder must not depend on a summation index of the itmd
    "contracted index in the remainder": ("ia", "k", True, [[((0,), (0,), {"i": "m", "k": "n"}, "F0"), ((1,), (1,), {"i": "m", "k": "o"}, "F1")]],
                                          None, {(0,): "nq", (1,): "q"}),
    "every variant sums an index of the remainder": ("ia", "k", True, [[((0,), (0,), {"i": "m"}, "F0"), ((1,), (0,), {"k": "n"}, "F1")]],
                                                     None, {(0,): "mk", (1,): "n"}),
    "remainder and targets concrete": ("ia", "k", True, [[((0,), (0,), {"k": "x"}, "F0"), ((1,), (0,), {"k": "q"}, "F1"), ((2,), (0,), {"k": "n"}, "F2")]],
                                       "xy", {(1,): "q", (2,): "x"}),
}


def _factored_matches(ctx, s, term_src, variants, compared, extra_ok=None):
    """``s`` is _build_factored_term(remainder, pref, itmd_cls, itmd_indices) for one of the variants of the term, all
    four read off the same variant and the very term object that was compared; returns an explanation or None"""
    if not (isinstance(s, T) and s.op == "call" and s.args[0] == "_build_factored_term"):
        return f"summand {show(s)[:160]} is neither the unchanged term nor a factored term"
    a = args_of(s)
    rem = a.get("remainder")
    inner = peel(rem)
    rec = None
    if isinstance(inner, T) and inner.op == "call" and inner.args[0] == "_factor_short_intermediate":
        rec = args_of(inner)
        inner = rec.get("expr")
    if not (isinstance(inner, T) and inner.op == "call" and inner.args[0] == "_get_remainder"):
        return f"remainder {show(rem)[:160]} is not the remainder of the term"
    g = args_of(inner)
    term = g.get("term")
    if not is_canonical_split(term, term_src):
        return f"remainder is taken from {show(term)[:120]}, not from the sign-canonical split of the term"
    if term not in compared:
        return f"remainder is taken from {show(term)[:120]}, but another object was compared with the intermediate: {[show(c)[:80] for c in compared]}"
    if rec is not None:
        bad = [k for k in ("itmd", "itmd_data", "itmd_cls") if rec.get(k) != sym(k)]
        if bad:
            return f"the remainder is factored again with another {bad} than the current intermediate"
    for v in variants or ():
        if tuple(g.get("obj_i", ())) != tuple(v["eri_i"]) or tuple(g.get("denom_i", ())) != tuple(v["denom_i"]):
            continue
        want_idx = tuple(nm(v["sub"].get(mk_index(d), mk_index(d))) for d in v["_defaults"])
        if tuple(nm(x) for x in a.get("itmd_indices", ())) != want_idx:
            continue
        want_pref = t_mul(T("attr", term, "pref"), v["factor"], t_pow(sym("ITMD_PREF"), -1))
        if not same_product(a.get("pref"), want_pref):
            return (f"prefactor {show(a.get('pref'))[:200]} of the factored term, expected term.pref * factor / itmd.pref = "
                    f"{show(want_pref)[:200]}")
        if a.get("itmd_cls") != sym("itmd_cls"):
            return f"factored term built for {show(a.get('itmd_cls'))}"
        return None
    return (f"factored term with removed objects {g.get('obj_i')}/{g.get('denom_i')} and itmd indices "
            f"{tuple(nm(x) for x in a.get('itmd_indices', ()))} mixes data of different variants {[(v['eri_i'], v['denom_i']) for v in variants or ()]}")


def conserved(ctx, rule, fn, what, value, sources, judge, key):
    """the returned sum has exactly one summand per source term; ``judge(k, summand)`` -> explanation | None"""
    parts = split_sum(value)
    owner = {}
    why = None
    for s in parts:
        ks = [k for k, src in enumerate(sources) if any(x == src for x in subterms(s))]
        if len(ks) != 1:
            why = f"summand {show(s)[:160]} stems from {len(ks)} terms of the input"
            break
        owner.setdefault(ks[0], []).append(s)
    if why is None:
        for k, src in enumerate(sources):
            got = owner.get(k, [])
            if len(got) == 0:
                why = f"term {show(src)} of the input is lost (the result is {show(value)[:200]})"
            elif len(got) > 1:
                why = f"term {show(src)} of the input enters the result {len(got)} times"
            else:
                why = judge(k, got[0])
            if why:
                break
    ctx.check(rule, fn, why is None, f"{what}: every term enters the result once, unchanged or factored with the matching prefactor",
              f"{what}: {why}", key=key)
    return why is None


def short_variant_refused(v, defaults, contracted, targets, rem_idx):
    """why a variant must not be used to factor a short intermediate (None: valid match) - as far as the scenario fixes the
    target indices of the term and the indices of the remainder"""
    img = [nm(v["sub"].get(mk_index(c), mk_index(c))) for c in contracted]
    dfl = [nm(v["sub"].get(mk_index(c), mk_index(c))) for c in defaults]
    if targets is not None and any(x in [nm(t) for t in targets] for x in img):
        return ("a contracted index of the intermediate lands on a target index of the term: that index is fixed, not summed, in the term")
    if len(set(img)) != len(img):
        return "two contracted indices of the intermediate land on the same index: the term holds only the diagonal of the double sum"
    if any(x in dfl for x in img):
        return "a contracted index of the intermediate coincides with one of its target indices: the term holds only a part of the sum"
    if rem_idx is not None and any(x in rem_idx.get(tuple(v["eri_i"]), "") for x in img):
        return "a contracted index of the intermediate also occurs in the remainder: the remainder depends on the summation index"
    return None


def decisions_made(o, s, variants, contracted, need_target, need_remainder):
    """symbolic target indices / remainder indices: on a path that accepts a variant the evaluation must have decided, for
    every contracted index of the intermediate, that its image is no target index of the term and no index of the remainder"""
    a = args_of(s)
    g = [c for c in subterms(a.get("remainder")) if c.op == "call" and c.args[0] == "_get_remainder"]
    if not g:
        return None
    call = g[0]
    g = args_of(call)
    term = g.get("term")
    v = [v for v in variants or () if tuple(g.get("obj_i", ())) == tuple(v["eri_i"]) and tuple(g.get("denom_i", ())) == tuple(v["denom_i"])]
    if not v:
        return None
    markers = []
    if need_target:
        markers.append((T("attr", T("attr", term, "eri"), "target"), "no target index of the term (term.eri.target): a target index is fixed, "
                        "the factored term would sum over it"))
    if need_remainder:
        markers.append((T("attr", call, "idx"), "no index of the remainder: the remainder would depend on the summation index"))
    for c in contracted:
        img = v[0]["sub"].get(mk_index(c), mk_index(c)).term
        for marker, text in markers:
            atoms = [(at, pol) for at, pol in o.path if at.op == "cmp" and any(x == img for x in subterms(at)) and
                     any(x == marker for x in subterms(at))]
            if not atoms:
                return f"the variant is accepted without checking that the contracted index {show(img)} of the intermediate is {text}"
            if any(pol for at, pol in atoms if at.args[0] in ("in", "==", "is")):
                return f"the variant is accepted although {show(atoms[0][0])[:200]} was decided to hold"
    return None


def r11b_short(ctx):
    rule = "R11b"
    fn = ctx.model.fn(FI + "_factor_short_intermediate")
    n_fact = n_keep = 0
    for sname, scen in SHORT_SCENARIOS.items():
        defaults, contracted, has_denom, per_term = scen[:4]
        targets = tuple(mk_index(x) for x in scen[4]) if len(scen) > 4 and scen[4] is not None else None
        rem_idx = scen[5] if len(scen) > 5 else None
        srcs = [sym(f"t{k}") for k in range(len(per_term))]
        variants = []
        for vs in per_term:
            if vs is None:
                variants.append(None)
            else:
                lst = []
                for e_i, d_i, sub, f in vs:
                    v = _variant(e_i, d_i, sub, sym(f))
                    lst.append(v)
                variants.append(lst)

        def compare_terms(sx, a, kw):
            names = ("term", "itmd_term", "term_data", "itmd_term_data")
            b = dict(zip(names, a))
            b.update(kw)
            sx.effects.append(T("compared", b.get("term").term if isinstance(b.get("term"), Obj) else b.get("term"),
                                nm(b.get("itmd_term")), b.get("term_data"), nm(b.get("itmd_term_data"))))
            src = unwrap(b["term"]) if isinstance(b.get("term"), T) else None
            if src not in srcs:
                return None
            vs = variants[srcs.index(src)]
            return None if vs is None else [dict(v) for v in vs]

        def args():
            D = tuple(mk_index(x) for x in defaults)
            itmd = Obj(None, "itmd", expr=Obj(None, "itmd.expr", idx=D + tuple(mk_index(x) for x in contracted)), pref=sym("ITMD_PREF"))
            itmd_data = Obj(None, "itmd_data", eri_obj_descriptions={"V": 1}, denom_bracket_lengths={4: 1} if has_denom else None)
            cls, _ = _tensor_provider("t9")
            cls.attrs.update(default_idx=tuple(defaults))
            return dict(expr=_abstract_expr("expr", list(srcs), is_number=sym("expr.is_number")), itmd=itmd, itmd_data=itmd_data, itmd_cls=cls)
        def target_of(sx_, obj, attr, node):
            # <split term>.eri.target of the scenarios with concrete target indices
            if targets is not None and attr == "target" and isinstance(obj, T) and obj.op == "attr" and obj.args[1] == "eri":
                return targets
            # the indices of the remainder that a variant leaves, in the scenarios that fix them
            if rem_idx is not None and attr == "idx" and isinstance(obj, T) and obj.op == "call" and obj.args[0] == "_get_remainder":
                return tuple(mk_index(x) for x in rem_idx.get(tuple(args_of(obj).get("obj_i", ())), ""))
            return NotImplemented
        sx = Symex(ctx.model, inline=factor_inline, hooks={"get_symbols": get_symbols_model, "_compare_terms": compare_terms},
                   what=f"_factor_short_intermediate[{sname}]", max_paths=60000, attr_hook=target_of)
        outs = sx.run(fn, args)
        judged = set()
        for o in outs:
            if o.kind == "raise":
                ctx.bad(rule, fn, f"_factor_short_intermediate[{sname}] raises {o.exc} on the path {o.path!r}: a variant that can not be "
                        "factored (contracted index of the intermediate in the remainder, ...) is skipped, the term stays as it is",
                        key=f"short raise {sname} {o.exc}")
                continue
            if any(pol and a == T("attr", sym("expr.sympy"), "is_number") or (pol and a == sym("expr.is_number")) for a, pol in o.path):
                ctx.check(rule, fn, isinstance(o.value, Obj) and o.value.name == "expr", f"[{sname}] a number is returned unchanged",
                          f"_factor_short_intermediate of a number returns {o.value!r}", key=f"short number {sname}")
                continue
            compared = [e.args[0] for e in o.effects if isinstance(e, T) and e.op == "compared"]
            wrong = [e for e in o.effects if isinstance(e, T) and e.op == "compared" and (e.args[1] != "itmd" or e.args[3] != "itmd_data")]
            if wrong:
                ctx.bad(rule, fn, f"_factor_short_intermediate[{sname}] compares the term with {show(wrong[0])[:200]}, not with the intermediate",
                        key=f"short compared {sname}")
            state = []

            def judge(k, s, o=o):
                if unwrap(s) == srcs[k]:
                    state.append("kept")
                    return None
                for v in variants[k] or ():
                    v["_defaults"] = defaults
                refused = {id(v): short_variant_refused(v, defaults, contracted, targets, rem_idx) for v in variants[k] or ()}
                allowed = [v for v in variants[k] or () if not refused[id(v)]]
                state.append("factored")
                if not allowed:
                    return ("the term is replaced by the intermediate although no variant is a valid match: "
                            + "; ".join(sorted(set(refused.values()))))
                r = _factored_matches(ctx, s, srcs[k], allowed, compared)
                if r is not None and _factored_matches(ctx, s, srcs[k], variants[k], compared) is None:
                    g = args_of([c for c in subterms(args_of(s).get("remainder")) if c.op == "call" and c.args[0] == "_get_remainder"][0])
                    bad = [refused[id(v)] for v in variants[k] if refused[id(v)] and tuple(g.get("obj_i", ())) == tuple(v["eri_i"])
                           and tuple(g.get("denom_i", ())) == tuple(v["denom_i"])]
                    return "a variant is accepted although " + (bad[0] if bad else "it is no valid match")
                if r is None and contracted:
                    r = decisions_made(o, s, variants[k], contracted, targets is None, rem_idx is None)
                return r
            sig = repr(canon(o.value))
            if sig in judged:
                continue
            judged.add(sig)
            conserved(ctx, rule, fn, f"_factor_short_intermediate[{sname}]", o.value, srcs, judge, key=f"short {sname} {len(judged)}")
            n_fact += state.count("factored")
            n_keep += state.count("kept")
    ctx.floor(rule, "factored terms evaluated in _factor_short_intermediate", n_fact, 8)
    ctx.floor(rule, "unchanged terms evaluated in _factor_short_intermediate", n_keep, 8)


def powers(t):
    """(coefficient, {factor: exponent}) of a product with integer powers distributed over inner products"""
    coeff, out = Fraction(1), {}

    def walk(x, e):
        nonlocal coeff
        if is_num(x):
            coeff *= Fraction(x) ** e if x != 0 or e > 0 else 0
        elif isinstance(x, T) and x.op == "mul":
            for y in x.args:
                walk(y, e)
        elif isinstance(x, T) and x.op == "pow" and isinstance(x.args[1], int):
            walk(x.args[0], e * x.args[1])
        else:
            out[x] = out.get(x, 0) + e
    walk(t, 1)
    return coeff, {k: v for k, v in out.items() if v != 0}


T2_TERMS = {
    # name: (eri objects [(description, indices, exponent)], denominator brackets [(matches eri number | None, exponent, is Expr)])
    "single": ([("oovv", "mnef", 1), ("ovov", "kcld", 1)], [(0, 1, True), (None, 1, True)]),
    "squared": ([("oovv", "mnef", 2)], [(None, 2, False), (0, 2, False)]),
    "eri squared only": ([("oovv", "mnef", 2)], [(0, 1, True)]),
    "bracket squared only": ([("oovv", "mnef", 1)], [(0, 2, False), (None, 1, True)]),
    "two amplitudes": ([("oovv", "mnef", 1), ("vvvv", "efgh", 1), ("oovv", "klcd", 1)], [(2, 1, True), (None, 3, False), (0, 1, True)]),
    "shared bracket": ([("oovv", "mnef", 1), ("oovv", "nmef", 1)], [(0, 2, False)]),
    "bracket used up": ([("oovv", "mnef", 1), ("oovv", "nmef", 1)], [(0, 1, True)]),
    "nothing to factor": ([("ovov", "kcld", 1), ("oovv", "mnef", 1)], [(None, 1, True), (None, 2, False)]),
    "no oovv integral": ([("ovov", "kcld", 2)], [(None, 1, True)]),
}


def _dval(names):
    """value of the t2_1 denominator e_a + e_b - e_i - e_j on the indices (i, j, a, b): symmetric within each pair only"""
    names = list(names)
    return ("D", tuple(sorted(names[:2])), tuple(sorted(names[2:])))


def r11b_t2_1(ctx):
    """t2_1.factor_itmd on concrete terms: result = prod_j (t2(idx_j)/pref_t2)^m_j * pref * (integrals with j removed m_j times)
    * num / (denominator with matching brackets removed sum m_j times)"""
    rule = "R11b"
    fn = ctx.model.fn("intermediates:t2_1.factor_itmd")
    n = 0
    for sname, (eris, brackets) in T2_TERMS.items():
        for with_denominator in (True, False):
            def eri_orbenergy(sx, a, kw):
                x = a[0] if a else kw.get("term")
                if isinstance(x, T) and x.op == "sym" and str(x.args[0]).startswith("t"):
                    return term_model(x)
                # the definition of t2_1 itself
                t2 = Obj(None, "T2")
                e0 = Obj(None, "T2.eri0", idx=tuple(mk_index(c) for c in "ijab"), exponent=1)
                e0.attrs["description"] = lambda sx_, a_, kw_: "oovv"

                def subs(sx_, a_, kw_):
                    d = dict_of(args_of(a_[0]).get("subsdict", args_of(a_[0]).get(0))) if isinstance(a_[0], T) and a_[0].op == "call" \
                        else dict(a_[0]) if isinstance(a_[0], (list, dict)) else None
                    if d is None:
                        raise AnalysisError(f"R11b: substitution of the t2_1 denominator not understood: {show(a_[0])}")
                    return _dval([nm(d.get(sym(c), d.get(mk_index(c), c))) for c in "ijab"])
                can = Obj(None, "T2c", eri=Obj(None, "T2c.eri", objects=[e0]), denom=Obj(None, "T2c.denom", sympy=Obj(None, "T2c.denom.sympy", subs=subs)),
                          pref=sym("T2_PREF"))
                t2.attrs["canonicalize_sign"] = lambda sx_, a_, kw_: can
                return t2

            def term_model(src):
                k = str(src.args[0])
                raw = Obj(None, f"split({k})", denom=Obj(None, f"{k}.denom", sympy=Obj(None, f"{k}.denom.sympy", is_number=not with_denominator)),
                          expr=sym(f"{k}.unchanged"))
                objs = []
                for j, (descr, idx, exp) in enumerate(eris):
                    o = Obj(None, f"{k}.eri{j}", idx=tuple(mk_index(c) for c in idx), exponent=exp)
                    o.attrs["description"] = lambda sx_, a_, kw_, d=descr: d
                    objs.append(o)
                bks = []
                for b, (match, exp, is_expr) in enumerate(brackets):
                    val = _dval(eris[match][1]) if match is not None else ("OTHER", b)
                    if is_expr:
                        bks.append(Obj("expr_container:Expr", f"{k}.bk{b}", sympy=val))
                    else:
                        bks.append(Obj("expr_container:Polynom", f"{k}.bk{b}", base_and_exponent=(val, exp)))
                can = Obj(None, f"canonical({k})", denom_brackets=bks, eri=Obj(None, f"{k}.eri", objects=objs), pref=sym(f"{k}.pref"),
                          num=sym(f"{k}.num"), expr=sym(f"{k}.canonical.unchanged"))
                can.attrs["cancel_denom_brackets"] = lambda sx_, a_, kw_: T("call", f"{k}.denom_without", (tuple(a_[0]),), ())
                can.attrs["cancel_eri_objects"] = lambda sx_, a_, kw_: T("call", f"{k}.eri_without", (tuple(a_[0]),), ())
                raw.attrs["canonicalize_sign"] = lambda sx_, a_, kw_: can
                return raw

            def args():
                expanded = _abstract_expr("expanded", [sym("t0"), sym("t1")])
                expr = Obj("expr_container:Expr", "expr", real=True, sympy=Obj(None, "expr.sympy", is_number=False))
                expr.attrs["expand"] = lambda sx_, a_, kw_: expanded
                me = rec("intermediates:t2_1", "self", name="t2_1", **class_attrs(ctx.model.cls("intermediates:t2_1")))
                return dict(self=me, expr=expr, factored_itmds=None, max_order=None)
            sx = Symex(ctx.model, inline=lambda q: q.split(":")[-1].split(".")[-1] not in ("EriOrbenergy", "order_substitutions", "tensor", "expand_itmd"),
                       hooks={"EriOrbenergy": eri_orbenergy, "Pow": lambda sx_, a_, kw_: t_pow(a_[0], a_[1])},
                       what=f"t2_1.factor_itmd[{sname}]")
            outs = sx.run(fn, args)
            what = f"t2_1.factor_itmd[{sname}{'' if with_denominator else ', no denominator'}]"
            if len(outs) != 1 or outs[0].kind != "return":
                ctx.bad(rule, fn, f"{what}: {outs[:2]}", key=f"t2_1 shape {sname} {with_denominator}")
                continue
            parts = split_sum(outs[0].value)
            why = None
            if len(parts) != 2:
                why = f"the two terms of the input give {len(parts)} summands: {show(outs[0].value)[:300]}"
            for k, part in zip(("t0", "t1"), parts):
                if why:
                    break
                if not with_denominator:
                    if part != sym(f"{k}.unchanged"):
                        why = f"a term without denominator becomes {show(part)[:200]}"
                    continue
                c, pw = powers(part)
                tens, other = {}, {}
                for f, e in pw.items():
                    if isinstance(f, T) and f.op == "mcall" and f.args[1] == "tensor":
                        a = args_of(f)
                        if a.get("return_sympy") is not True:
                            why = f"tensor requested wrapped: {show(f)}"
                        tens["".join(nm(x) for x in a.get("indices", ()))] = e
                    else:
                        other[f] = e
                m = {j: tens.get(idx, 0) for j, (d, idx, ex) in enumerate(eris)}
                if set(tens) - {idx for _, idx, _ in eris}:
                    why = f"amplitude on indices {sorted(set(tens) - {idx for _, idx, _ in eris})} that belong to no integral of the term"
                    break
                E = tuple(sorted(j for j in m for _ in range(m[j])))
                total = sum(m.values())
                want_eri = T("call", f"{k}.eri_without", (E,), ())
                got_eri = [f for f in other if isinstance(f, T) and f.op == "call" and f.args[0] == f"{k}.eri_without"]
                got_den = [f for f in other if isinstance(f, T) and f.op == "call" and f.args[0] == f"{k}.denom_without"]
                if c != 1:
                    why = f"numerical factor {c}"
                elif len(got_eri) != 1 or other.get(got_eri[0]) != 1 or tuple(sorted(got_eri[0].args[1][0])) != E:
                    why = (f"the amplitudes introduced are {m} (integral number: power), but the integrals removed are "
                           f"{[tuple(sorted(g.args[1][0])) for g in got_eri]}: integral and amplitude do not balance")
                elif len(got_den) != 1 or other.get(got_den[0]) != -1:
                    why = f"denominator of the result: {[show(g) for g in got_den]}"
                else:
                    B = list(got_den[0].args[1][0])
                    need = {}
                    for j, mj in m.items():
                        if mj:
                            need[_dval(eris[j][1])] = need.get(_dval(eris[j][1]), 0) + mj
                    have = {}
                    for b in B:
                        match = brackets[b][0]
                        val = _dval(eris[match][1]) if match is not None else ("OTHER", b)
                        have[val] = have.get(val, 0) + 1
                    if need != have:
                        why = (f"amplitudes introduced {m} need the brackets {need} removed, removed are {have} (bracket numbers {B}): "
                               "integral, bracket and amplitude are not exchanged equally often")
                    elif any(d != "oovv" for j, (d, _, _) in enumerate(eris) if m[j]):
                        why = "an integral of another block than oovv is replaced by t2_1"
                    else:
                        rest = {f: e for f, e in other.items() if f not in (got_eri[0], got_den[0])}
                        want = {sym(f"{k}.pref"): 1, sym(f"{k}.num"): 1}
                        if total:
                            want[sym("T2_PREF")] = -total
                        if rest != want:
                            why = f"remaining factors {({show(f): e for f, e in rest.items()})}, expected {({show(f): e for f, e in want.items()})}"
                        else:
                            # everything that can be exchanged is exchanged at least once when a matching pair exists
                            possible = any(d == "oovv" and any(b[0] is not None and _dval(eris[b[0]][1]) == _dval(idx) for b in brackets)
                                           for d, idx, _ in eris)
                            if possible and not total:
                                why = "a matching integral/bracket pair exists but nothing is factored"
            n += 1
            ctx.check(rule, fn, why is None, f"{what}: integral, bracket and amplitude exchanged equally often, rest of the term kept",
                      f"{what}: {why}", key=f"t2_1 {sname} {with_denominator}")
    ctx.floor(rule, "terms evaluated in t2_1.factor_itmd", n, 12)
    # early exits and guards: decision table
    me_attrs = class_attrs(ctx.model.cls("intermediates:t2_1"))
    for is_number in (True, False):
        for factored in (None, (), ("t2_1",), ("t1_2",), ["t1_2", "t2_1"]):
            for max_order in (None, 0, 1, 2):
                def args():
                    expanded = _abstract_expr("expanded", [])
                    expr = Obj("expr_container:Expr", "expr", real=True, sympy=Obj(None, "expr.sympy", is_number=is_number))
                    expr.attrs["expand"] = lambda sx_, a_, kw_: expanded
                    return dict(self=rec("intermediates:t2_1", "self", name="t2_1", **me_attrs), expr=expr, factored_itmds=factored,
                                max_order=max_order)
                sx = Symex(ctx.model, inline=lambda q: q.split(":")[-1].split(".")[-1] not in ("EriOrbenergy", "order_substitutions", "tensor", "expand_itmd"),
                           hooks={"EriOrbenergy": lambda sx_, a_, kw_: Obj(None, "T2", canonicalize_sign=lambda s_, a2, k2: sym("T2c"))},
                           what="t2_1.factor_itmd early exits")
                outs = sx.run(fn, args)
                skip = is_number or (factored is not None and "t2_1" in factored) or (max_order is not None and max_order < 1)
                ok = len(outs) == 1 and outs[0].kind == "return" and \
                    ((isinstance(outs[0].value, Obj) and outs[0].value.name == "expr") if skip else outs[0].value == 0)
                ctx.check(rule, fn, ok, f"t2_1.factor_itmd(number={is_number}, factored={factored}, max_order={max_order}): "
                          f"{'expression unchanged' if skip else 'terms processed'}",
                          f"t2_1.factor_itmd(number={is_number}, factored={factored}, max_order={max_order}) gives {outs[:2]}, expected "
                          f"{'the unchanged expression' if skip else 'the (empty) sum of processed terms'}",
                          key=f"t2_1 early {is_number} {factored} {max_order}")
    for tag, ex, exc in (("not an Expr", Obj(None, "expr", real=True, _classes=()), "Inputerror"),
                         ("complex orbitals", Obj("expr_container:Expr", "expr", real=False), "NotImplementedError")):
        sx = Symex(ctx.model, inline=lambda q: True, what="t2_1.factor_itmd guards")
        outs = sx.run(fn, lambda: dict(self=rec("intermediates:t2_1", "self", name="t2_1", **me_attrs), expr=ex, factored_itmds=None, max_order=None))
        ctx.check(rule, fn, outs and all(o.kind == "raise" and o.exc == exc for o in outs), f"t2_1.factor_itmd: {tag} refused",
                  f"t2_1.factor_itmd: {tag} gives {outs[:2]}", key=f"t2_1 guard {tag}")


class PoolModel:
    """Model of the LongItmdVariants pool as _factor_complete/_factor_mixed_prefactors use it: a queue of variants per
    (itmd indices, remainder); a variant is handed out only while none of its terms has been removed; handing out the same
    variant again and again means the used terms were not removed."""

    def __init__(self, queues, method):
        self.queues, self.method = queues, method
        self.used, self.log, self.given = set(), [], []
        self.obj = Obj(None, "intermediate_variants")
        self.obj.attrs.update(items=self.items, remove_used_terms=self.remove, clean_empty=self.clean,
                              **{method: self.get, ("get_mixed_pref_variant" if method == "get_complete_variant" else "get_complete_variant"): self.other})

    def items(self, sx, a, kw):
        out = {}
        for (idx, rem) in self.queues:
            out.setdefault(idx, []).append(rem)
        return list(out.items())

    def other(self, sx, a, kw):
        self.log.append(("wrong getter",))
        return None

    def get(self, sx, a, kw):
        from ..symex import Raised
        idx = kw.get("itmd_indices", a[0] if a else None)
        rem = kw.get("remainder", a[1] if len(a) > 1 else None)
        for n_v, v in enumerate(self.queues.get((idx, rem), [])):
            terms = v["terms"]
            if any(t in self.used for t in terms):
                continue
            self.given.append((idx, rem, n_v))
            if self.given.count((idx, rem, n_v)) > 2:
                raise Raised("TermsUsedTwice")
            self.log.append(("get", idx, rem, n_v))
            if self.method == "get_complete_variant":
                return v["pref"], list(terms)
            return list(v["prefs"]), list(terms), dict(v["units"]), dict(v["counter"])
        self.log.append(("get", idx, rem, None))
        return None

    def remove(self, sx, a, kw):
        ts = kw.get("used_terms", a[0] if a else None)
        self.log.append(("remove", tuple(ts)))
        self.used |= set(ts)

    def clean(self, sx, a, kw):
        self.log.append(("clean",))


def _long_parts(ctx, fn, what, queues, method, expected_terms):
    """runs _factor_complete/_factor_mixed_prefactors on the pool model; -> (outcome, pool, factored set) | None"""
    st = {}

    def args():
        st["pool"] = PoolModel(queues, method)
        st["factored"] = {90}
        cls, _ = _tensor_provider("t9")
        return dict(result=sym("RESULT"), terms=[sym(f"t{k}") for k in range(8)], itmd_cls=cls, factored_terms=st["factored"],
                    intermediate_variants=st["pool"].obj)
    sx = Symex(ctx.model, inline=factor_inline, what=what, max_paths=64)
    outs = sx.run(fn, args)
    if len(outs) != 1:
        ctx.bad("R11b", fn, f"{what}: not one outcome: {outs[:3]}", key=f"{what} shape")
        return None
    return outs[0], st["pool"], st["factored"]


def r11b_complete(ctx):
    rule = "R11b"
    fn = ctx.model.fn(FI + "_factor_complete")
    I0, I1 = tuple(mk_index(c) for c in "ia"), tuple(mk_index(c) for c in "jb")
    R0, R1 = sym("REM0"), sym("REM1")
    tables = {
        "nothing": {(I0, R0): []},
        "one": {(I0, R0): [dict(pref=sym("P0"), terms=[0, 1])]},
        "two in a row": {(I0, R0): [dict(pref=sym("P0"), terms=[0, 1]), dict(pref=sym("P1"), terms=[2, 3])]},
        "overlapping": {(I0, R0): [dict(pref=sym("P0"), terms=[0, 1]), dict(pref=sym("P1"), terms=[1, 2]), dict(pref=sym("P2"), terms=[3, 3, 4])]},
        "several pools": {(I0, R0): [dict(pref=sym("P0"), terms=[0, 1])], (I0, R1): [dict(pref=sym("P1"), terms=[1, 2]), dict(pref=sym("P2"), terms=[5])],
                          (I1, R0): [dict(pref=sym("P3"), terms=[0, 6]), dict(pref=sym("P4"), terms=[6, 7])]},
    }
    for name, queues in tables.items():
        what = f"_factor_complete[{name}]"
        r = _long_parts(ctx, fn, what, queues, "get_complete_variant", None)
        if r is None:
            continue
        o, pool, factored = r
        # specification: greedily, pool by pool, every variant whose terms are all still unused
        used, want_terms, want = set(), [], []
        for (idx, rem), vs in queues.items():
            for v in vs:
                if any(t in used for t in v["terms"]):
                    continue
                used |= set(v["terms"])
                want.append(T("call", "_build_factored_term", (), (("remainder", rem), ("pref", v["pref"]), ("itmd_cls", sym("itmd_cls")),
                                                                      ("itmd_indices", tuple(x.term for x in idx)))))
        if o.kind != "return":
            ctx.bad(rule, fn, f"{what}: {o.exc}: a variant is handed out again because its terms were not removed from the pool "
                    "(or the same terms are factored twice)" if o.exc == "TermsUsedTwice" else f"{what} raises {o.exc}", key=f"{what} pairing")
            continue
        ok_shape = isinstance(o.value, tuple) and len(o.value) == 2
        res, flag = o.value if ok_shape else (None, None)
        got = sorted(map(repr, split_sum(res))) if ok_shape else None
        ctx.check(rule, fn, ok_shape and got == sorted(map(repr, [sym("RESULT")] + want)),
                  f"{what}: result + one factored term (remainder, common prefactor, tensor on the itmd indices) per complete variant",
                  f"{what}: returns {show(res)[:400]}, expected RESULT + {[show(w) for w in want]}", key=f"{what} new term")
        ctx.check(rule, fn, factored == {90} | used and pool.used == used,
                  f"{what}: the terms of every factored variant are marked as factored and removed from the pool",
                  f"{what}: factored_terms={sorted(factored)}, removed from the pool={sorted(pool.used)}, expected {sorted(used)} (+ the "
                  "previously factored term 90): a term that is not marked is added to the result a second time by the caller",
                  key=f"{what} pairing")
        ctx.check(rule, fn, flag is bool(want), f"{what}: success flag {bool(want)}", f"{what}: success flag {flag!r}", key=f"{what} flag")
        ctx.check(rule, fn, ("wrong getter",) not in pool.log, f"{what}: only complete variants", f"{what}: asks for mixed-prefactor variants",
                  key=f"{what} getter")


def r11b_mixed(ctx):
    rule = "R11b"
    fn = ctx.model.fn(FI + "_factor_mixed_prefactors")
    I0, I1 = tuple(mk_index(c) for c in "ia"), tuple(mk_index(c) for c in "jb")
    R0, R1 = sym("REM0"), sym("REM1")
    F = Fraction
    U = {k: sym(f"UNIT{k}") for k in range(8)}

    def var(prefs, terms):
        c = {}
        for p_ in prefs:
            c[p_] = c.get(p_, 0) + 1
        return dict(prefs=prefs, terms=terms, units={t: U[t] for t in terms}, counter=c)
    tables = {
        "nothing": {(I0, R0): []},
        "one deviating term": {(I0, R0): [var([2, 2, 1], [0, 1, 2])]},
        "term at two positions": {(I0, R0): [var([F(1, 2), 3, F(1, 2), F(1, 2), 3], [0, 1, 2, 3, 1])]},
        "negative prefactors": {(I0, R0): [var([-1, 1, -1, -1], [0, 1, 2, 3])], (I1, R1): [var([F(-1, 4), F(-1, 4), F(1, 4)], [4, 5, 6])]},
        "two in a row": {(I0, R0): [var([2, 2, 1], [0, 1, 2]), var([3, 1, 1], [3, 4, 5])], (I0, R1): [var([1, 1, 5], [2, 6, 7]), var([1, 4, 4], [6, 7, 7])]},
    }
    for name, queues in tables.items():
        what = f"_factor_mixed_prefactors[{name}]"
        r = _long_parts(ctx, fn, what, queues, "get_mixed_pref_variant", None)
        if r is None:
            continue
        o, pool, factored = r
        if o.kind != "return":
            ctx.bad(rule, fn, f"{what}: {o.exc}: a variant is handed out again because its terms were not removed from the pool"
                    if o.exc == "TermsUsedTwice" else f"{what} raises {o.exc}", key=f"{what} pairing")
            continue
        ok_shape = isinstance(o.value, tuple) and len(o.value) == 2
        res, flag = o.value if ok_shape else (None, None)
        splits = {}
        for t in subterms(res) if ok_shape else ():
            if t.op == "mcall" and t.args[1] == "canonicalize_sign":
                src = unwrap(t)
                if is_canonical_split(t, src):
                    splits.setdefault(src, t)
        used, want = set(), [sym("RESULT")]
        missing_split = None
        for (idx, rem), vs in queues.items():
            for v in vs:
                if any(t in used for t in v["terms"]):
                    continue
                used |= set(v["terms"])
                mc = max(v["counter"].items(), key=lambda kv: kv[1])[0]
                done = set()
                for p_, t in zip(v["prefs"], v["terms"]):
                    if p_ == mc or t in done:
                        continue
                    done.add(t)
                    term = splits.get(sym(f"t{t}"))
                    if term is None:
                        missing_split = t
                        continue
                    # a + 2b + c = z - ...: the term keeps (its prefactor - prefactor it needs inside the intermediate)
                    want.append(t_mul(t_add(T("attr", term, "pref"), t_mul(-1, mc, v["units"][t])), T("attr", term, "num"), T("attr", term, "eri"),
                                      t_pow(T("attr", term, "denom"), -1)))
                want.append(T("call", "_build_factored_term", (), (("remainder", rem), ("pref", mc), ("itmd_cls", sym("itmd_cls")),
                                                                      ("itmd_indices", tuple(x.term for x in idx)))))
        got = keyset(res) if ok_shape else None
        exp = keyset(t_add(*want))
        ctx.check(rule, fn, ok_shape and missing_split is None and got == exp,
                  f"{what}: result + intermediate with the most common prefactor + (pref - common pref * unit pref) * term for every deviating term once",
                  f"{what}: returns {show(res)[:500]}, expected {show(t_add(*want))[:500]}"
                  + (f" (term {missing_split} is not completed from its sign-canonical split)" if missing_split is not None else ""),
                  key=f"{what} completion")
        ctx.check(rule, fn, factored == {90} | used and pool.used == used,
                  f"{what}: the terms of every factored variant are marked as factored and removed from the pool",
                  f"{what}: factored_terms={sorted(factored)}, removed from the pool={sorted(pool.used)}, expected {sorted(used)} (+ 90)",
                  key=f"{what} pairing")
        ctx.check(rule, fn, flag is (len(want) > 1), f"{what}: success flag", f"{what}: success flag {flag!r}", key=f"{what} flag")
        ctx.check(rule, fn, ("wrong getter",) not in pool.log, f"{what}: only mixed-prefactor variants", f"{what}: asks for complete variants",
                  key=f"{what} getter")


def keyset(t):
    """multiset of the distributed products of a term (commutative)"""
    from ..terms import product_key, multiset
    return multiset(product_key(c, fs, lambda f: True) for c, fs in expand_products(t))


LONG_TARGETS, LONG_REMAINDER_IDX = ("x", "y"), ("z", "y")


def long_variant_refused(sub, contracted):
    """why a variant of the long scenario must not enter the pool (None: it is a valid match)"""
    imgs = [sub.get(c, c) for c in contracted]
    dflt = [sub.get(c, c) for c in "ijab"]
    if any(x in LONG_TARGETS for x in imgs):
        return "a contracted index of the intermediate lands on a target index of the term (it is fixed there, not summed)"
    if len(set(imgs)) != len(imgs):
        return "two contracted indices of the intermediate land on the same index: the term holds only the diagonal of the double sum"
    if any(x in dflt for x in imgs):
        return "a contracted index of the intermediate coincides with one of its target indices: the term holds only a part of the sum"
    if any(x in LONG_REMAINDER_IDX for x in imgs):
        return "a contracted index of the intermediate also occurs in the remainder: the remainder depends on the summation index"
    if dflt[0] > dflt[1]:
        return ("the tensor symmetry reorders the itmd indices (alias of the match at another position of the definition, which is "
                "found on its own): registering it here counts the term twice")
    return None


def r11b_long(ctx):
    """_factor_long_intermediate: (1) every match that enters the pool carries prefactor = term.pref * factor /
    (n * itmd_term.pref) and unit prefactor = itmd_term.pref * factor * n (n = number of itmd terms the match spreads to,
    factor = variant factor), remainder and indices of the same variant; variants that put a contracted index of the
    intermediate on a target index of the term, on another index of the intermediate or into the remainder, and aliases
    produced by the tensor symmetry never enter the pool (and nothing is raised for them);
    (2) the result is what _factor_complete/_factor_mixed_prefactors return plus every term they did not consume, once."""
    rule = "R11b"
    fn = ctx.model.fn(FI + "_factor_long_intermediate")
    D = tuple(mk_index(c) for c in "ijab")
    MIN = tuple(mk_index(c) for c in "klcd")
    # term -> itmd term -> variants (eri_i, denom_i, sub, factor); term 1 is no candidate at all, term 3 has no denominator
    table = {
        0: {0: [((0,), (0,), {"i": "m", "j": "n", "k": "o", "l": "u"}, "F00a"),       # fine
                ((1,), (0,), {"i": "m", "j": "n"}, "F00b"),                            # fine, same itmd indices as F00a
                ((1,), (1,), {"i": "n", "j": "m", "k": "o", "l": "u"}, "F00alias"),    # tensor symmetry reorders the indices: alias
                ((2,), (0,), {"i": "m", "j": "o", "k": "x", "l": "u"}, "F00target"),   # contracted index on a target index of the term
                ((2,), (1,), {"i": "m", "j": "o", "k": "u", "l": "u"}, "F00same"),     # two contracted indices on one index
                ((2,), (2,), {"i": "m", "j": "o", "k": "o", "l": "u"}, "F00diag"),     # contracted index on an itmd target index
                ((3,), (0,), {"i": "m", "j": "o", "k": "z", "l": "u"}, "F00rem"),      # contracted index occurs in the remainder
                ((3,), (1,), {"i": "m", "j": "m", "k": "o", "l": "u"}, "F00tt")],      # two TARGET indices coincide: still a match
            1: [((0, 1), (1,), {"a": "e"}, "F01"), ((0, 2), (1,), {"i": "w", "j": "v"}, "F01alias")]},
        2: {0: None, 1: [((2,), (0, 0), {"b": "f", "k": "y"}, "F21")]},   # itmd term 1 has no contracted index: k is irrelevant
        3: {0: [((0,), (), {}, "F30")], 1: [((0,), (), {}, "F31")]},
    }
    spread = {(0, 0): {0, 1}, (0, 1): {1}, (2, 1): {1, 0}, (3, 0): {0}, (3, 1): {1}}
    consumed = {"complete": [0], "mixed": [2]}
    for with_sign, dup in ((True, False), (False, True)):
        st = {}

        def eri_orbenergy(sx, a, kw):
            x = a[0] if a else kw.get("term")
            k = int(str(x.args[0])[1:])
            can = Obj(None, f"TERM{k}", pref=sym(f"t{k}.pref"), eri=Obj(None, f"t{k}.eri", target=(mk_index("x"), mk_index("y"))), src=k)
            raw = Obj(None, f"split(t{k})")
            raw.attrs["canonicalize_sign"] = lambda sx_, a_, kw_: can
            return raw

        def term_data(sx, a, kw):
            t = a[0] if a else kw.get("term")
            k = t.attrs["src"]
            return Obj(None, f"DATA{k}", eri_obj_descriptions={"V": 0 if k == 1 else 2, "f": 1},
                       denom_bracket_lengths=None if k == 3 else {4: 2}, src=k)

        def compare_terms(sx, a, kw):
            b = dict(zip(("term", "itmd_term", "term_data", "itmd_term_data"), a))
            b.update(kw)
            k, i = b["term"].attrs["src"], b["itmd_term"].attrs["pos"]
            okd = isinstance(b.get("term_data"), Obj) and b["term_data"].attrs.get("src") == k and \
                isinstance(b.get("itmd_term_data"), Obj) and b["itmd_term_data"].attrs.get("pos") == i
            st["compared"].append((k, i, okd))
            vs = table.get(k, {}).get(i)
            if vs is None:
                return None
            return [dict(_variant(e_i, d_i, sub, sym(f)), _id=(k, i, n_v)) for n_v, (e_i, d_i, sub, f) in enumerate(vs)]

        def minimize(sx, a, kw):
            idx = kw.get("tensor_indices", a[0] if a else None)
            st["minimized"].append(tuple(nm(x) for x in idx))
            return tuple(mk_index(nm(x) + "1") if len(nm(x)) == 1 else x for x in idx), (sym("PERM"),)

        def tensor(sx, a, kw):
            if kw.get("return_sympy") or (len(a) > 1 and a[1]):
                return Obj("sympy_objects:NonSymmetricTensor", "TENSOR")
            idx = tuple(kw.get("indices", a[0] if a else ()))
            # the tensor is (anti)symmetric in its first two indices: it stores them in canonical order
            swapped = nm(idx[0]) > nm(idx[1])
            canonical = ((idx[1], idx[0]) if swapped else idx[:2]) + idx[2:]
            objs = [Obj(None, "tensor_obj", base=Obj("sympy_objects:AntiSymmetricTensor", "tensor_base"), idx=canonical,
                        sympy=Obj(None, "tensor_obj.sympy", is_number=False))]
            if with_sign and swapped:
                objs.insert(0, Obj(None, "sign_obj", base=Obj(None, "sign_base", _classes=()), sympy=Obj(None, "TSIGN", is_number=True)))
            t = Obj(None, "tensor_term", objects=objs, _len=len(objs))
            return Obj(None, "tensor_expr", terms=[t])

        def compare_remainder(sx, a, kw):
            b = dict(zip(("remainder", "ref_remainder", "itmd_indices"), a))
            b.update(kw)
            st["rem_compared"] += 1
            return 1 if dup else None

        def map_on_other(sx, a, kw):
            b = dict(zip(("itmd_i", "remainder", "itmd_term_map", "itmd_indices", "itmd_default_idx"), a))
            b.update(kw)
            gr = [c for c in subterms(b["remainder"]) if c.op == "call" and c.args[0] == "_get_remainder"]
            k = int(nm(args_of(gr[0])["term"])[4:]) if gr else None
            st["mapped"].append((k, b["itmd_i"], b["itmd_term_map"], tuple(nm(x) for x in b["itmd_indices"]),
                                 tuple(nm(x) for x in b["itmd_default_idx"])))
            return set(spread.get((k, b["itmd_i"]), {b["itmd_i"]}))

        def variants_cls(sx, a, kw):
            st["pool_size"] = a[0] if a else kw.get("n_itmd_terms")
            pool = Obj(None, "POOL")
            pool.attrs["add"] = lambda sx_, a_, kw_: st["adds"].append((tuple(a_), dict(kw_)))
            return pool

        def part(tag):
            def f(sx, a, kw):
                b = dict(zip(("result", "terms", "itmd_cls", "factored_terms", "intermediate_variants"), a))
                b.update(kw)
                st["parts"].append((tag, isinstance(b["intermediate_variants"], Obj) and b["intermediate_variants"].name == "POOL",
                                    [nm(x) for x in b["terms"]], nm(b["itmd_cls"]), set(b["factored_terms"])))
                b["factored_terms"].update(consumed[tag])
                return t_add(b["result"], sym(tag.upper())), tag == "complete"
            return f

        def args():
            st.update(compared=[], minimized=[], adds=[], parts=[], mapped=[], rem_compared=0)
            # itmd term 0 sums over k and l
            itmd = [Obj(None, f"itmd{i}", expr=Obj(None, f"itmd{i}.expr", idx=D + ((mk_index("k"), mk_index("l")) if i == 0 else ())),
                        pref=sym(f"itmd{i}.pref"), pos=i) for i in range(2)]
            data = tuple(Obj(None, f"itmd_data{i}", eri_obj_descriptions={"V": 1 + i}, denom_bracket_lengths={4: 1} if i == 0 else None, pos=i)
                         for i in range(2))
            cls = Obj(None, "itmd_cls", default_idx=tuple("ijab"), tensor=tensor)
            return dict(expr=_abstract_expr("expr", [sym(f"t{k}") for k in range(4)]), itmd=itmd, itmd_data=data, itmd_term_map=sym("TERM_MAP"),
                        itmd_cls=cls)
        def get_remainder(sx, a, kw):
            b = dict(zip(("term", "obj_i", "denom_i"), a))
            b.update(kw)
            call = T("call", "_get_remainder", (), (("term", b["term"].term), ("obj_i", tuple(b["obj_i"])), ("denom_i", tuple(b["denom_i"]))))
            r = Obj(None, f"REM{len(st['compared'])}.{tuple(b['obj_i'])}", idx=(mk_index("z"), mk_index("y")), sympy=sym("REM.sympy"))
            r.attrs["permute"] = lambda sx_, a_, kw_: T("mcall", call, "permute", tuple(a_), ())
            return r
        hooks = {"get_symbols": get_symbols_model, "EriOrbenergy": eri_orbenergy, "FactorizationTermData": term_data, "_get_remainder": get_remainder,
                 "_compare_terms": compare_terms, "minimize_tensor_indices": minimize, "_compare_remainder": compare_remainder,
                 "_map_on_other_terms": map_on_other, "LongItmdVariants": variants_cls, "_factor_complete": part("complete"),
                 "_factor_mixed_prefactors": part("mixed"),
                 "len": lambda sx_, a_, kw_: a_[0].attrs["_len"] if len(a_) == 1 and isinstance(a_[0], Obj) and "_len" in a_[0].attrs else NotImplemented}
        sx = Symex(ctx.model, inline=factor_inline, hooks=hooks, what="_factor_long_intermediate", max_paths=256)
        outs = sx.run(fn, args)
        tag = "antisymmetric tensor" if with_sign else "symmetric tensor, duplicate remainders"
        what = f"_factor_long_intermediate[{tag}]"
        if len(outs) != 1 or outs[0].kind != "return":
            ctx.bad(rule, fn, f"{what}: {outs[:3]}", key=f"long shape {tag}")
            continue
        # (2) conservation
        parts = sorted(map(repr, split_sum(unwrap(outs[0].value))))
        left = [k for k in range(4) if k not in consumed["complete"] + consumed["mixed"]]
        want = sorted(map(repr, [sym("COMPLETE"), sym("MIXED")] + [sym(f"t{k}") for k in left]))
        ctx.check(rule, fn, parts == want, f"{what}: result = factored parts + every term not consumed by a factorisation, once",
                  f"{what}: the result consists of {parts}, expected {want} (terms {consumed} are consumed by the factorisations): a term "
                  "that took part in no factorisation must be added unchanged at the end", key=f"long tail {tag}")
        okp = [p_[0] for p_ in st["parts"]] == ["complete", "mixed"] and all(p_[1] and p_[2] == [f"t{k}" for k in range(4)] and p_[3] == "itmd_cls"
                                                                             for p_ in st["parts"]) and \
            st["parts"][0][4] == set() and st["parts"][1][4] == set(consumed["complete"])
        ctx.check(rule, fn, okp, f"{what}: complete variants first, then mixed prefactors, on the same pool, terms and bookkeeping set",
                  f"{what}: factorisation passes called as {st['parts']}", key=f"long passes {tag}")
        # (1) the matches
        exp = []
        candidates = [(k, i) for k in range(4) for i in range(2) if k != 1 and not (k == 3 and i == 0)]
        for k, i in candidates:
            seen_idx = set()
            for n_v, v in enumerate(table.get(k, {}).get(i) or ()):
                if long_variant_refused(v[2], "kl" if i == 0 else ""):
                    continue
                key_ = tuple(v[2].get(c, c) for c in "ijab")
                if dup and key_ in seen_idx:
                    continue
                seen_idx.add(key_)
                exp.append((k, i, n_v, v))
        ok_n = len(st["adds"]) == len(exp)
        why = None if ok_n else f"{len(st['adds'])} matches enter the pool, expected {len(exp)}"
        for a_, kw_ in st["adds"]:
            b = dict(zip(("term_i", "itmd_indices", "remainder", "matching_itmd_terms", "prefactor", "unit_factorization_pref"), a_))
            b.update(kw_)
            for k_, per in table.items():
                for i_, vs_ in per.items():
                    for e_i, d_i, sub, f in vs_ or ():
                        r = long_variant_refused(sub, "kl" if i_ == 0 else "")
                        if r and any(x == sym(f) for x in subterms(b.get("prefactor"))):
                            why = f"the match {f} (substitution {sub}) enters the pool although {r}"
        for (a_, kw_), (k, i, n_v, (e_i, d_i, sub, f)) in zip(st["adds"], exp):
            if why:
                break
            b = dict(zip(("term_i", "itmd_indices", "remainder", "matching_itmd_terms", "prefactor", "unit_factorization_pref"), a_))
            b.update(kw_)
            M = spread.get((k, i), {i})
            fac = sym(f)
            want_p = t_mul(sym(f"t{k}.pref"), fac, Fraction(1, len(M)), t_pow(sym(f"itmd{i}.pref"), -1))
            want_u = t_mul(sym(f"itmd{i}.pref"), fac, len(M))
            img = tuple((sub.get(c, c)) for c in "ijab")
            want_idx = tuple(x + "1" if len(x) == 1 else x for x in img)
            rem = b.get("remainder")
            gr = [c for c in subterms(rem) if c.op == "call" and c.args[0] == "_get_remainder"] if isinstance(rem, T) else []
            if b.get("term_i") != k:
                why = f"match of term {k} filed under term {b.get('term_i')}"
            elif set(b.get("matching_itmd_terms", ())) != M:
                why = f"match ({k},{i}) spreads to {b.get('matching_itmd_terms')}, the term map gives {M}"
            elif not same_product(b.get("prefactor"), want_p):
                why = (f"match (term {k}, itmd term {i}): prefactor {show(b.get('prefactor'))[:200]}, expected term.pref * factor / "
                       f"(n * itmd_term.pref) = {show(want_p)[:200]}")
            elif not same_product(b.get("unit_factorization_pref"), want_u):
                why = (f"match (term {k}, itmd term {i}): unit factorisation prefactor {show(b.get('unit_factorization_pref'))[:200]}, "
                       f"expected itmd_term.pref * factor * n = {show(want_u)[:200]}")
            elif tuple(nm(x) for x in b.get("itmd_indices", ())) != want_idx:
                why = f"match ({k},{i}): itmd indices {tuple(nm(x) for x in b.get('itmd_indices', ()))}, expected {want_idx}"
            elif len(gr) != 1 or nm(args_of(gr[0])["term"]) != f"TERM{k}" or tuple(args_of(gr[0])["obj_i"]) != tuple(e_i) or \
                    tuple(args_of(gr[0])["denom_i"]) != tuple(d_i):
                why = f"match ({k},{i}): remainder {show(rem)[:200]} is not the remainder of variant {n_v}"
            elif not (rem.op == "mcall" and rem.args[1] == "permute" and rem.args[2] == (sym("PERM"),)):
                why = f"match ({k},{i}): remainder {show(rem)[:200]} is not permuted like the minimised itmd indices"
        ctx.check(rule, fn, why is None, f"{what}: {len(exp)} matches with prefactor, unit prefactor, indices and remainder of their own variant",
                  f"{what}: {why}", key=f"long pref {tag}")
        okc = all(c[2] for c in st["compared"]) and [(c[0], c[1]) for c in st["compared"]] == candidates
        ctx.check(rule, fn, okc, f"{what}: only candidates that pass the prescan are compared, each with its own data",
                  f"{what}: compared (term, itmd term, own data) {st['compared']}", key=f"long candidates {tag}")
        okm = all(m_[2] == sym("TERM_MAP") and m_[4] == tuple("ijab") for m_ in st["mapped"]) and st.get("pool_size") == 2
        ctx.check(rule, fn, okm, f"{what}: spreading looked up in the term map of the intermediate on its default indices",
                  f"{what}: _map_on_other_terms called as {st['mapped']}, pool for {st.get('pool_size')} itmd terms", key=f"long map {tag}")
    # a number is returned unchanged
    sx = Symex(ctx.model, inline=factor_inline, what="_factor_long_intermediate number")
    outs = sx.run(fn, lambda: dict(expr=_abstract_expr("expr", [], is_number=True), itmd=[], itmd_data=(), itmd_term_map=None, itmd_cls=sym("C")))
    ctx.check(rule, fn, len(outs) == 1 and outs[0].kind == "return" and isinstance(outs[0].value, Obj) and outs[0].value.name == "expr",
              "_factor_long_intermediate: a number is returned unchanged", f"_factor_long_intermediate of a number: {outs[:2]}", key="long number")


def r11b_split(ctx):
    """RegisteredIntermediate.factor_itmd: the terms are split into candidates and the rest, the candidates go through the
    short / long factorisation (with the definition prepared for the already factored intermediates), the rest is added
    back; nothing to do -> the expression comes back unchanged"""
    rule = "R11b"
    fn = ctx.model.fn(IT + "factor_itmd")
    # (order, has an orbital energy denominator)
    term_specs = [(1, True), (2, False), (2, True), (3, True), (0, False)]

    def mk_terms():
        out = []
        for k, (order, denom) in enumerate(term_specs):
            objs = [Obj(None, f"t{k}.obj0", exponent=1, contains_only_orb_energies=False)]
            if denom:
                objs.append(Obj(None, f"t{k}.obj1", exponent=-1, contains_only_orb_energies=True))
                objs.append(Obj(None, f"t{k}.obj2", exponent=-1, contains_only_orb_energies=False))
            out.append(Obj(None, f"t{k}", order=order, objects=objs, sympy=T("attr", sym(f"t{k}"), "sympy")))
        return out

    def scenario(itype, order, n_itmd_terms, factored=("t2_1",), max_order=None, name="x9_9", is_number=False, real=True, is_expr=True):
        st = {"prepared": []}

        def prepare(sx, a, kw):
            st["prepared"].append(kw.get("factored_itmds", a[0] if a else None))
            return Obj(None, "itmd_expr", terms=[sym(f"i{j}") for j in range(n_itmd_terms)])

        def args():
            st["prepared"] = []
            expanded = _abstract_expr("expanded", mk_terms())
            expr = rec("expr_container:Expr" if is_expr else None, "expr", real=real, sympy=Obj(None, "expr.sympy", is_number=is_number),
                       expand=lambda sx_, a_, kw_: expanded, **({} if is_expr else {"_classes": ()}))
            me = rec("intermediates:RegisteredIntermediate", "self", name=name, _order=order, _itmd_type=itype, _prepare_itmd=prepare,
                     itmd_term_map=lambda sx_, a_, kw_: T("call", "TERM_MAP", (tuple(kw_.get("factored_itmds", a_[0] if a_ else ())),), ()))
            return dict(self=me, expr=expr, factored_itmds=factored, max_order=max_order)
        sx = Symex(ctx.model, inline=factor_inline, what="RegisteredIntermediate.factor_itmd", max_paths=64)
        return sx.run(fn, args), st

    def through(v, n_itmd_terms, problems):
        """the argument of the (value preserving) factorisation calls, their other arguments checked"""
        depth = 0
        while isinstance(v, T) and v.op == "call" and v.args[0] in ("_factor_short_intermediate", "_factor_long_intermediate"):
            a = args_of(v)
            short = v.args[0] == "_factor_short_intermediate"
            if short != (n_itmd_terms == 1):
                problems.append(f"{v.args[0]} used for a definition of {n_itmd_terms} term(s)")
            itmds = [a.get("itmd")] if short else list(a.get("itmd") or ())
            datas = [a.get("itmd_data")] if short else list(a.get("itmd_data") or ())
            if len(itmds) != n_itmd_terms or any(not is_canonical_split(x, sym(f"i{j}")) for j, x in enumerate(itmds)):
                problems.append(f"the intermediate handed over is {[show(x)[:80] for x in itmds]}, not the sign-canonical split terms of the prepared definition")
            elif [args_of(d).get("term") if isinstance(d, T) and d.op == "call" and d.args[0] == "FactorizationTermData" else None
                  for d in datas] != itmds:
                problems.append(f"the term data {[show(d)[:80] for d in datas]} do not belong to the terms of the definition")
            if a.get("itmd_cls") != sym("self"):
                problems.append(f"factored for the class {show(a.get('itmd_cls'))}")
            if not short and not (isinstance(a.get("itmd_term_map"), T) and a["itmd_term_map"].op == "call" and a["itmd_term_map"].args[0] == "TERM_MAP"):
                problems.append(f"term map {show(a.get('itmd_term_map'))}")
            v = a.get("expr")
            depth += 1
        return v, depth

    n = 0
    for itype, order, n_terms, factored in (("t_amplitude", 2, 1, ("t2_1",)), ("t_amplitude", 1, 3, ["t2_1", "t1_2"]), ("mp_density", 2, 2, None),
                                            ("mp_density", 1, 1, ()), ("re_residual", 3, 2, ("t2_1",)), ("t_amplitude", 4, 2, ())):
        outs, st = scenario(itype, order, n_terms, factored)
        what = f"factor_itmd[{itype}, order {order}, {n_terms} itmd term(s)]"
        if len(outs) != 1 or outs[0].kind != "return":
            ctx.bad(rule, fn, f"{what}: {outs[:2]}", key=f"split shape {itype} {order} {n_terms}")
            continue
        relevant = [k for k, (o, d) in enumerate(term_specs) if o >= order and (d or itype != "t_amplitude")]
        v = outs[0].value
        if not relevant:
            ctx.check(rule, fn, isinstance(v, Obj) and v.name in ("expr", "expanded"), f"{what}: no candidate term -> expression unchanged",
                      f"{what}: no term qualifies but the result is {v!r}", key=f"split none {itype} {order} {n_terms}")
            n += 1
            continue
        problems = []
        inside, outside, depth = [], [], 0
        for part in split_sum(v) if isinstance(v, T) else []:
            inner, d = through(part, n_terms, problems)
            if d:
                depth = d
                inside += [repr(x) for x in split_sum(unwrap(inner))]
            else:
                outside.append(repr(unwrap(part)))
        want_in = sorted(f"t{k}" for k in relevant)
        want_out = sorted(f"t{k}" for k in range(len(term_specs)) if k not in relevant)
        n += 1
        ctx.check(rule, fn, sorted(inside) == want_in and sorted(outside) == want_out and not problems,
                  f"{what}: candidates {want_in} factored, {want_out} added back, every term once",
                  f"{what}: terms inside the factorisation {sorted(inside)} (expected {want_in}), added back {sorted(outside)} (expected "
                  f"{want_out}){'; ' + '; '.join(problems) if problems else ''}; result {show(v)[:300]}", key=f"split {itype} {order} {n_terms}")
        max_present = max(o for o, _ in term_specs)
        want_depth = 1 if n_terms == 1 else max_present // order
        ctx.check(rule, fn, depth == want_depth, f"{what}: factorisation applied {want_depth} time(s)",
                  f"{what}: the factorisation is applied {depth} times, expected {want_depth} (max order of the terms // order of the intermediate)",
                  key=f"split repeats {itype} {order} {n_terms}")
        want_f = tuple(factored or ())
        ctx.check(rule, fn, st["prepared"] and all(isinstance(x, tuple) and x == want_f for x in st["prepared"]),
                  f"{what}: definition prepared with the already factored intermediates {want_f}",
                  f"{what}: _prepare_itmd called with {st['prepared']}, expected {want_f}", key=f"split prepared {itype} {order} {n_terms}")
    ctx.floor(rule, "splits evaluated in factor_itmd", n, 5)
    # nothing to do: decision table
    for is_number in (False, True):
        for name in ("x9_9", "t4_2"):
            for factored in ((), ("x9_9",), ("t2_1",)):
                for max_order in (None, 1, 2, 3):
                    outs, st = scenario("mp_density", 2, 1, factored, max_order, name, is_number)
                    skip = is_number or name in factored or name == "t4_2" or (max_order is not None and max_order < 2)
                    unchanged = len(outs) == 1 and outs[0].kind == "return" and isinstance(outs[0].value, Obj) and outs[0].value.name == "expr"
                    processed = len(outs) == 1 and outs[0].kind == "return" and isinstance(outs[0].value, T) and bool(st["prepared"])
                    ctx.check(rule, fn, unchanged if skip else processed,
                              f"factor_itmd(number={is_number}, name={name}, factored={factored}, max_order={max_order}): "
                              f"{'unchanged' if skip else 'factored'}",
                              f"factor_itmd(number={is_number}, name={name}, order 2, factored={factored}, max_order={max_order}) gives {outs[:2]}, "
                              f"expected {'the unchanged expression' if skip else 'a factorisation'}", key=f"early {is_number} {name} {factored} {max_order}")
    for tag, kw, exc in (("not an Expr", dict(is_expr=False), "TypeError"), ("complex orbitals", dict(real=False), "NotImplementedError")):
        outs, st = scenario("mp_density", 2, 1, **kw)
        ctx.check(rule, fn, outs and all(o.kind == "raise" and o.exc == exc for o in outs), f"factor_itmd: {tag} refused",
                  f"factor_itmd: {tag} gives {outs[:2]}", key=f"split guard {tag}")


def r11b_driver(ctx):
    """factor_intermediates: the requested intermediates (filtered by max_order) are factored one after another on the running
    expression, each being told which ones were factored before it"""
    rule = "R11b"
    fn = ctx.model.fn(FI + "factor_intermediates")
    orders = {"t2_1": 1, "t1_2": 2, "p0_2_oo": 2, "t2_3": 3, "p0_3_vv": 3}
    types = {"t_amplitude": ["t2_1", "t1_2", "t2_3"], "mp_density": ["p0_2_oo", "p0_3_vv"]}
    for request, max_order in ((None, None), (None, 2), ("mp_density", None), (["t_amplitude", "p0_3_vv"], 2), (("t1_2", "t2_1"), None),
                               ("t2_3", 2), ([], None)):
        st = {"calls": []}

        def intermediates(sx, a, kw):
            def itmd(name):
                def factor_itmd(sx_, a_, kw_):
                    b = dict(zip(("expr", "factored_itmds", "max_order"), a_))
                    b.update(kw_)
                    st["calls"].append((name, b["expr"], tuple(b.get("factored_itmds") or ()), b.get("max_order")))
                    return T("call", f"FACTOR[{name}]", (b["expr"].term if isinstance(b["expr"], Obj) else b["expr"],), ())
                return rec(None, name, order=orders[name], factor_itmd=factor_itmd, name=name)
            objs = {n_: itmd(n_) for n_ in orders}
            o = Obj(None, "Intermediates()", available=dict(objs))
            for t_, ns in types.items():
                o.attrs[t_] = {n_: objs[n_] for n_ in ns}
            for n_ in orders:
                o.attrs[n_] = {n_: objs[n_]}
            return o

        def args():
            st["calls"] = []
            expr = rec("expr_container:Expr", "expr", sympy=Obj(None, "expr.sympy", is_number=False), terms=[],
                       substitute_contracted=lambda sx_, a_, kw_: T("mcall", sym("expr"), "substitute_contracted", (), ()))
            return dict(expr=expr, types_or_names=request, max_order=max_order)
        sx = Symex(ctx.model, inline=lambda q: q.split(":")[-1].split(".")[-1] not in ("EriOrbenergy",),
                   hooks={"Intermediates": intermediates, "perf_counter": lambda sx_, a_, kw_: 0,
                          "len": lambda sx_, a_, kw_: 0 if len(a_) == 1 and isinstance(a_[0], (T, Obj)) else NotImplemented},
                   what="factor_intermediates", max_paths=64)
        outs = sx.run(fn, args)
        if request is None:
            names = list(orders)
        else:
            names = []
            for r in ([request] if isinstance(request, str) else request):
                names += [n_ for n_ in (types.get(r) or [r]) if n_ not in names]
        if max_order is not None:
            names = [n_ for n_ in names if orders[n_] <= max_order]
        what = f"factor_intermediates({request}, max_order={max_order})"
        if len(outs) != 1 or outs[0].kind != "return":
            ctx.bad(rule, fn, f"{what}: {outs[:2]}", key=f"driver shape {request} {max_order}")
            continue
        running = sym("expr")
        want_calls = []
        for k, n_ in enumerate(names):
            want_calls.append((n_, running, tuple(names[:k]), max_order))
            running = T("call", f"FACTOR[{n_}]", (running,), ())
        got_calls = [(c[0], c[1].term if isinstance(c[1], Obj) else c[1], c[2], c[3]) for c in st["calls"]]
        ctx.check(rule, fn, got_calls == want_calls, f"{what}: {names} factored one after another on the running expression",
                  f"{what}: factor_itmd calls (name, expression, factored before, max_order) {[(c[0], show(c[1])[:60], c[2], c[3]) for c in got_calls]}, "
                  f"expected {[(c[0], show(c[1])[:60], c[2], c[3]) for c in want_calls]}", key=f"driver {request} {max_order}")
        v = outs[0].value
        ok = isinstance(v, T) and v.op == "mcall" and v.args[1] == "substitute_contracted" and v.args[0] == running
        ctx.check(rule, fn, ok, f"{what}: the last factored expression is returned (contracted indices minimised)",
                  f"{what}: returns {show(v)[:200]}, expected {show(running)[:200]}.substitute_contracted()", key=f"driver result {request} {max_order}")
    sx = Symex(ctx.model, inline=lambda q: True, what="factor_intermediates guards")
    outs = sx.run(fn, lambda: dict(expr=rec("expr_container:Expr", "expr", sympy=Obj(None, "expr.sympy", is_number=True)), types_or_names=None,
                                   max_order=None))
    ctx.check(rule, fn, len(outs) == 1 and outs[0].kind == "return" and isinstance(outs[0].value, Obj), "factor_intermediates: a number comes back unchanged",
              f"factor_intermediates of a number: {outs[:2]}", key="driver number")
    outs = sx.run(fn, lambda: dict(expr=Obj(None, "expr", _classes=()), types_or_names=None, max_order=None))
    ctx.check(rule, fn, outs and all(o.kind == "raise" for o in outs), "factor_intermediates: something that is no Expr refused",
              f"factor_intermediates of a non-Expr: {outs[:2]}", key="driver guard")


def r11b(ctx):
    for f in (r11b_t2_1, r11b_short, r11b_long, r11b_complete, r11b_mixed, r11b_split, r11b_driver):
        f(ctx)


def _tensor_provider(names, negative=False):
    """abstract intermediate class: ``tensor(...)`` hands out a tensor record (``negative``: -tensor, as the library returns
    for indices that are not in canonical order) and logs how it was requested"""
    log = []

    def tensor(sx, a, kw):
        nm_ = names[len(log) % len(names)] if isinstance(names, (list, tuple)) else names
        log.append((tuple(a), dict(kw)))
        o = Obj(None, f"TENSOR{len(log) - 1}")
        o.attrs.update(name=nm_, atoms=lambda sx_, a_, kw_: {o})
        if not negative:
            return o
        neg = Obj(None, f"NEG_TENSOR{len(log) - 1}")
        neg.attrs.update(atoms=lambda sx_, a_, kw_: {o})
        return neg
    cls = Obj(None, "itmd_cls")
    cls.attrs.update(tensor=tensor, name="t9_9")
    return cls, log


def r11c(ctx):
    rule = "R11c"
    fn = ctx.model.fn(FI + "_build_factored_term")
    sx = Symex(ctx.model, inline=lambda q: True, what="_build_factored_term")
    IDX = tuple(mk_index(x) for x in "ijab")
    for name, negative in [(n_, False) for n_ in ("Zero", "t2eri4", "t2eri_4", "Z", "Zeroo", "zero", "ZERO", "t1", "t2sq", "p2", "", sym("NAME"))] + \
            [("Zero", True), ("t2eri4", True), (sym("NAME"), True)]:
        st = {}

        def args():
            st["cls"], st["log"] = _tensor_provider(name, negative)
            return dict(remainder=sym("REM"), pref=sym("PREF"), itmd_cls=st["cls"], itmd_indices=IDX)
        outs = sx.run(fn, args)
        for o in outs:
            tag = (show(name) if isinstance(name, T) else repr(name)) + (" (-tensor)" if negative else "")
            if o.kind != "return":
                ctx.bad(rule, fn, f"_build_factored_term raises {o.exc} for a tensor named {tag}", key=f"raise {tag}")
                continue
            is_zero_name = name == "Zero" or (isinstance(name, T) and any(
                pol and a == T("cmp", "==", *sorted(("Zero", name), key=repr)) for a, pol in o.path))
            v = strip(o.value, calls=("Expr",))
            if is_zero_name:
                asm = [c for c in subterms(o.value) if c.op == "call" and c.args[0] == "Expr"]
                ok = v == 0 and asm and any(x == T("attr", sym("REM"), "assumptions") for c in asm for x in subterms(c))
                ctx.check(rule, fn, bool(ok), "the placeholder tensor 'Zero' resolves to 0 with the assumptions of the remainder",
                          f"_build_factored_term for the placeholder 'Zero' returns {show(o.value)[:160]}", key=f"zero placeholder {tag}")
            else:
                tens = sym("NEG_TENSOR0" if negative else "TENSOR0")
                prods = expand_products(v)
                ok = len(prods) == 1 and prods[0][0] == 1 and sorted(map(show, prods[0][1])) == sorted(map(show, [sym("REM"), sym("PREF"), tens]))
                ctx.check(rule, fn, ok, f"tensor named {tag}: factored term = remainder * pref * tensor",
                          f"_build_factored_term for a tensor named {tag} returns {show(o.value)[:160]} on the path {o.path!r}; only the "
                          "placeholder 'Zero' of the residuals may be resolved to 0, everything else is remainder * pref * tensor",
                          key=f"assembly {tag}" if v != 0 else f"zero placeholder {tag}")
            lg = st["log"]
            okt = len(lg) >= 1 and all(tuple(k.get("indices", a[0] if a else ())) == IDX and k.get("return_sympy", a[1] if len(a) > 1 else False) is True
                                       for a, k in lg)
            ctx.check(rule, fn, okt, "tensor of the factored intermediate on the found indices",
                      f"_build_factored_term requests the tensor as {lg}", key=f"tensor {tag}")
    tab = tensor_table(ctx)
    for name, info in tab.items():
        builds_zero = info["tensor_name"] == "Zero"
        ctx.check(rule, info["cls"], builds_zero == (info["itmd_type"] == "re_residual"),
                  f"{name}: {'builds' if builds_zero else 'does not build'} the Zero placeholder",
                  f"{name} (type {info['itmd_type']}) {'builds' if builds_zero else 'does not build'} the 'Zero' placeholder; only "
                  "residuals (which vanish for converged amplitudes) may be factored to 0", key=f"zero {name}")


DEF_VOCAB = {"expand_itmd", "tensor", "get_symbols", "eri", "fock", "orb_energy", "sort_idx_canonical"}


def _abstract_registry(classes):
    r = {}
    for cname, cls in classes.items():
        at = class_attrs(cls)
        r.setdefault(at.get("_itmd_type"), {})[cname] = Obj(f"intermediates:{cname}", cname, **at)
    return r


def _record_fields(value):
    """fields of the returned base_expr record: an evaluated namedtuple record, or the opaque constructor call"""
    if isinstance(value, Obj) and isinstance(value.attrs.get("_fields"), tuple):
        return {f: value.attrs[f] for f in value.attrs["_fields"]}
    if isinstance(value, T) and value.op == "call":
        return args_of(value)
    return {}


def _references(value, names):
    """calls X.expand_itmd(...) / X.tensor(...) on registered intermediates inside an evaluated definition"""
    out = []
    if isinstance(value, Obj):
        value = list(_record_fields(value).values())
    for t in subterms(value):
        if t.op == "mcall" and t.args[1] in ("expand_itmd", "tensor") and nm(t.args[0]) in names:
            out.append(t)
    return out


def r11d(ctx):
    """every definition, evaluated for both expansion levels: the intermediates it is built from are expanded recursively
    (X.expand_itmd, itself fully expanding) when fully_expand is set and stay tensors (X.tensor) otherwise; both levels
    are the same formula"""
    rule = "R11d"
    classes = registered_classes(ctx)
    sx = Symex(ctx.model, inline=lambda q: q.split(":")[-1].split(".")[-1] not in DEF_VOCAB, hooks={"get_symbols": get_symbols_model},
               what="_build_expanded_itmd", max_paths=256)
    n = 0
    for cname, cls in classes.items():
        fn = ctx.model.fn(f"intermediates:{cname}._build_expanded_itmd")
        attrs = class_attrs(cls)
        residual = attrs.get("_itmd_type") == "re_residual"
        exprs = {}
        for level in (True, False):
            outs = sx.run(fn, lambda: dict(self=Obj(f"intermediates:{cname}", "self", _registry=_abstract_registry(classes), **attrs),
                                           fully_expand=level))
            rets = [o for o in outs if o.kind == "return"]
            if not rets or len(rets) != len(outs):
                ctx.bad(rule, fn, f"{cname}._build_expanded_itmd({level}) does not return on every path: {outs[:3]}",
                        fn=f"intermediates:{cname}._build_expanded_itmd", key=f"{cname} returns {level}")
                continue
            want = "tensor" if residual or not level else "expand_itmd"
            refs = {}
            for o in rets:
                for t in _references(o.value, classes):
                    refs.setdefault(nm(t.args[0]), set()).add((t.args[1], args_of(t).get("fully_expand")))
            for var, uses in sorted(refs.items()):
                n += 1
                ok = all(m == want and (m == "tensor" or fe is True) for m, fe in uses)
                how = sorted(f"{m}" + ("" if fe in (None, True) else f"(fully_expand={fe})") for m, fe in uses)
                if residual:
                    ctx.check(rule, fn, ok, f"{cname}({level}): residual uses {var}.tensor only",
                              f"{cname}: residual definitions must reference `{var}` through .tensor, found {how} for fully_expand={level}",
                              fn=f"intermediates:{cname}._build_expanded_itmd", key=f"{cname} {var} {level}")
                else:
                    ctx.check(rule, fn, ok, f"{cname}(fully_expand={level}): `{var}` enters as {var}.{want}",
                              f"{cname}: for fully_expand={level} the referenced intermediate `{var}` enters as {how}, expected "
                              f"{var}.{want}: the expansion level is ignored for it", fn=f"intermediates:{cname}._build_expanded_itmd",
                              key=f"{cname} {var} {level}")
            # the defining expression of the level (first field of base_expr), wrappers of the index minimisation removed
            vals = []
            for o in rets:
                a = _record_fields(o.value)
                vals.append(a.get("expr", a.get(0)))
            exprs[level] = vals
        if residual or True not in exprs or False not in exprs:
            continue

        def norm(v):
            def f(x):
                if x.op == "mcall" and x.args[1] in ("expand_itmd", "tensor") and nm(x.args[0]) in classes:
                    kw = tuple((k, val) for k, val in x.args[3] if k != "fully_expand")
                    return T("mcall", x.args[0], "REF", x.args[2], kw)
                return x
            from ..terms import rebuild
            v = strip(v, calls=("Expr",), mcalls=("substitute_contracted",), attrs=("sympy",))
            return repr(canon(rebuild(v, f)))
        a, b = {norm(v) for v in exprs[True]}, {norm(v) for v in exprs[False]}
        ctx.check(rule, fn, a == b and len(a) == 1, f"{cname}: both expansion levels evaluate the same formula",
                  f"{cname}: the definition for fully_expand=True is not the definition for fully_expand=False with every referenced "
                  f"intermediate expanded: {sorted(a)[0][:300]} vs {sorted(b)[0][:300]}", fn=f"intermediates:{cname}._build_expanded_itmd",
                  key=f"{cname} levels")
    ctx.floor(rule, "references to other intermediates", n, 60)


# ---------------------------------------------------------------------------
# the tensors of the registered intermediates, by evaluation of _build_tensor, of the tensor constructors, of
# <tensor>.idx and of Obj.longname (nothing is read off the source text)

_TT_CACHE = {}
SINGLETONS = ("S.Zero", "S.One", "S.NegativeOne")


def class_attrs(cls):
    """literal class attributes (the declared interface of a registered intermediate: _itmd_type, _order, _default_idx)"""
    out = {}
    for n in cls.body:
        tgt, val = (n.target, n.value) if isinstance(n, ast.AnnAssign) else (n.targets[0], n.value) if isinstance(n, ast.Assign) else (None, None)
        if isinstance(tgt, ast.Name) and val is not None:
            try:
                out[tgt.id] = ast.literal_eval(val)
            except Exception:
                pass
    return out


def registered_classes(ctx):
    m = ctx.model.module("intermediates")
    sx = Symex(ctx.model)
    out = {}
    for cname, cls in m.classes.items():
        if cname != "RegisteredIntermediate" and "RegisteredIntermediate" in sx._bases(f"intermediates:{cname}"):
            out[cname] = cls
    if len(out) < 5:
        raise AnalysisError("no registered intermediates found")
    return out


def tensor_names_model(model, renamed=None):
    """the TensorNames singleton (configured names; ``renamed`` models a tensor_names.json) and its dataclass fields"""
    fields = class_attrs(model.cls("tensor_names:TensorNames"))
    fields = {k: v for k, v in fields.items() if isinstance(v, str)}
    vals = dict(fields)
    vals.update(renamed or {})
    o = Obj("tensor_names:TensorNames", "tensor_names", **vals)
    flds = []
    for k, v in fields.items():
        f = Obj(None, f"field:{k}")
        f.attrs.update(name=k, default=v)
        flds.append(f)
    return o, flds


tensor_index = mk_index


class TensorWorld:
    """Models of the sympy primitives the tensor constructors use: sympify (numbers -> singletons, names -> symbols),
    Tuple, the fermion sort (stable sort by the library's own key with the number of transpositions), object creation."""

    def __init__(self, model, renamed=None):
        self.model = model
        self.made = {}
        tn, flds = tensor_names_model(model, renamed)
        self.hooks = {"tensor_names": tn, "fields": lambda sx, a, kw: flds, "sympify": self.sympify, "Tuple": self.tuple_,
                      "_sort_anticommuting_fermions": self.sort_fermions, "super": self.super_, "get_symbols": get_symbols_model,
                      "len": self.len_}
        self.sx = Symex(model, inline=lambda q: True, hooks=self.hooks, what="tensor construction")
        self.sx.on_start = self.start

    def start(self, sx):
        for i, a in enumerate(SINGLETONS):
            for b in SINGLETONS[i + 1:]:
                sx.assume(T("cmp", "is", *sorted((sym(a), sym(b)), key=repr)), False)

    @staticmethod
    def sympify(sx, a, kw):
        x = a[0]
        if isinstance(x, bool):
            return x
        if isinstance(x, int):
            from ..symex import Ext
            return {0: Ext("S.Zero"), 1: Ext("S.One"), -1: Ext("S.NegativeOne")}.get(x, x)
        if isinstance(x, str):
            o = Obj(None, f"Symbol({x})")
            o.attrs.update(name=x)
            return o
        return x

    @staticmethod
    def len_(sx, a, kw):
        if len(a) == 1 and isinstance(a[0], Obj) and isinstance(a[0].attrs.get("args"), tuple):
            return len(a[0].attrs["args"])
        return NotImplemented

    @staticmethod
    def tuple_(sx, a, kw):
        o = Obj(None, "Tuple(" + ",".join(nm(x) if isinstance(x, Obj) else str(x) for x in a) + ")")
        o.attrs.update(args=tuple(a))
        return o

    @staticmethod
    def sort_fermions(sx, a, kw):
        from ..symex import Raised
        seq = list(a[0])
        key = kw.get("key")
        ks = [sx.call_value(key, [x], {}, None) if key is not None else x for x in seq]
        if any(isinstance(k, T) for k in ks):
            return NotImplemented
        if len({repr(k) for k in ks}) != len(ks):
            raise Raised("ViolationOfPauliPrinciple")
        order, swaps = list(range(len(seq))), 0
        for i in range(len(order)):
            for j in range(len(order) - 1 - i):
                if ks[order[j]] > ks[order[j + 1]]:
                    order[j], order[j + 1] = order[j + 1], order[j]
                    swaps += 1
        return [seq[i] for i in order], swaps

    def super_(self, sx, a, kw):
        def new(sx_, args, kw_):
            cls = args[0]
            kind = cls.name if isinstance(cls, Obj) else str(cls)
            o = Obj(f"sympy_objects:{kind}", f"<{kind} #{len(self.made)}>")
            o.attrs.update(args=tuple(args[1:]), is_number=False)
            self.made[o.name] = o
            return o
        o = Obj(None, "super")
        o.attrs["__new__"] = new
        return o

    def construct(self, kind, name, groups, bks):
        """-> (tensor record, sign) of ``kind(name, *groups[, bks])`` evaluated through the constructor"""
        r = self.sx.find_method(f"sympy_objects:{kind}", "__new__")
        if r is None:
            raise AnalysisError(f"constructor of {kind} not found")
        fn = r[0]
        params = [a.arg for a in fn.args.args][2:]

        def args():
            d = dict(cls=Obj(f"sympy_objects:{kind}", kind), name=name)
            for p_, g in zip(params, list(groups) + ([bks] if bks is not None else [])):
                d[p_] = g
            return d
        outs = self.sx.run(fn, args)
        if len(outs) != 1 or outs[0].kind != "return":
            raise AnalysisError(f"construction of {kind}({name}, {groups}, {bks}) is not deterministic: {outs}")
        v = outs[0].value
        if isinstance(v, Obj):
            return v, 1
        if isinstance(v, T) and v.op == "mul" and len(v.args) == 2 and v.args[0] == -1 and nm(v.args[1]) in self.made:
            return self.made[nm(v.args[1])], -1
        raise AnalysisError(f"construction of {kind}({name}, ...) returns {show(v)[:120]}")

    def read_idx(self, tensor):
        kind = tensor.cls.split(":")[1]
        r = self.sx.find_method(tensor.cls, "idx")
        if r is None:
            raise AnalysisError(f"{kind}.idx not found")
        outs = self.sx.run(r[0], lambda: dict(self=tensor))
        if len(outs) != 1 or outs[0].kind != "return" or isinstance(outs[0].value, T):
            raise AnalysisError(f"{kind}.idx is not evaluable: {outs}")
        return tuple(outs[0].value)

    def container(self, tensor):
        return Obj("expr_container:Obj", "obj", sympy=tensor)

    def longname(self, tensor, use_default_names=True):
        fn = self.model.fn("expr_container:Obj.longname")
        outs = self.sx.run(fn, lambda: dict(self=self.container(tensor), use_default_names=use_default_names))
        if len(outs) != 1:
            raise AnalysisError(f"Obj.longname is not deterministic for {tensor}: {outs}")
        return outs[0].value if outs[0].kind == "return" else f"<raises {outs[0].exc}>"


def tensor_table(ctx, renamed=None):
    key = (ctx.model.digest, repr(sorted((renamed or {}).items())))
    if key in _TT_CACHE:
        for mname in ("intermediates", "sympy_objects", "expr_container", "tensor_names"):
            ctx.model.used_modules.add(mname)
        return _TT_CACHE[key]
    w = TensorWorld(ctx.model, renamed)
    ctx.model.module("sympy_objects"), ctx.model.module("expr_container"), ctx.model.module("tensor_names")
    out = {}
    for cname, cls in registered_classes(ctx).items():
        attrs = class_attrs(cls)
        try:
            itype, order, didx = attrs["_itmd_type"], attrs["_order"], tuple(attrs["_default_idx"])
        except KeyError as e:
            raise AnalysisError(f"{cname}: class attribute {e} not literal")
        bt = ctx.model.fn(f"intermediates:{cname}._build_tensor")
        outs = w.sx.run(bt, lambda: dict(self=Obj(f"intermediates:{cname}", "self", **attrs), indices=tuple(tensor_index(x) for x in didx)))
        if len(outs) != 1 or outs[0].kind != "return" or not (isinstance(outs[0].value, T) and outs[0].value.op == "call"):
            raise AnalysisError(f"{cname}._build_tensor does not return one tensor: {outs}")
        a = args_of(outs[0].value)
        kind = outs[0].value.args[0]
        name = a.get("name")
        if not isinstance(name, str):
            raise AnalysisError(f"{cname}._build_tensor: tensor name is not determined by the configuration: {show(name)}")
        given = [tuple(nm(x) for x in a[k]) for k in ("upper", "lower", "indices") if k in a]
        if not given or any(not isinstance(x, str) for g in given for x in g):
            raise AnalysisError(f"{cname}._build_tensor: index groups not determined: {show(outs[0].value)}")
        bks = a.get("bra_ket_sym")
        tensor, sign = w.construct(kind, name, [tuple(tensor_index(x) for x in g) for g in given], bks)
        built = [tuple(nm(x) for x in g.attrs["args"]) for g in tensor.attrs["args"][1:] if isinstance(g, Obj) and "args" in g.attrs]
        idx = tuple(nm(x) for x in w.read_idx(tensor))
        out[cname] = {"cls": cls, "itmd_type": itype, "order": order, "default_idx": didx, "kind": kind, "tensor_name": name,
                      "given": given, "built": built, "sign": sign, "bra_ket_sym": bks, "idx": idx,
                      "longname": w.longname(tensor, True), "build_tensor": bt}
    _TT_CACHE[key] = out
    return out


RENAMED = {"gs_amplitude": "amp", "gs_density": "rho", "eri": "W", "fock": "F"}


def r11e(ctx):
    rule = "R11e"
    n = 0
    for tag, renamed in (("default names", None), ("renamed tensors", RENAMED)):
        tab = tensor_table(ctx, renamed)
        ctx.floor(rule, "registered intermediate classes", len(tab), 25)
        for name, info in tab.items():
            if info["tensor_name"] == "Zero":
                ctx.ok(rule, info["cls"], f"{name}: Zero placeholder (resolved by _build_factored_term)", fn=f"intermediates:{name}",
                       key=f"name {name} {tag}")
                continue
            ln = info["longname"]
            n += 1
            ctx.check(rule, info["cls"], ln == name, f"{name}: longname of its tensor `{info['tensor_name']}` is `{ln}` [{tag}]",
                      f"the tensor `{info['tensor_name']}` built by {name}._build_tensor has the default long name `{ln}` [{tag}]; "
                      f"Obj.expand_intermediates looks intermediates up by that name, so `{name}` is never found (or another definition "
                      "is used)", fn=f"intermediates:{name}", key=f"name {name} {tag}")
    # the registry: flattened by class name; classes registered under their class name
    av = ctx.model.fn("intermediates:Intermediates.__init__")
    reg = {"t_amplitude": {"t2_1": sym("T21"), "t1_2": sym("T12")}, "mp_density": {"p0_2_oo": sym("P2")}, "empty": {}}
    me = {}

    def mk_self():
        me["self"] = Obj("intermediates:Intermediates", "self")
        return dict(self=me["self"])

    def ri(sx_, a, kw):
        o = Obj("intermediates:RegisteredIntermediate", "base")
        o.attrs["_registry"] = {k: dict(v) for k, v in reg.items()}
        return o
    sx = Symex(ctx.model, inline=lambda q: True, hooks={"RegisteredIntermediate": ri}, what="Intermediates.__init__")
    outs = sx.run(av, mk_self)
    flat = {k: v for d in reg.values() for k, v in d.items()}
    got = None
    if len(outs) == 1 and outs[0].kind == "return":
        fa = Symex(ctx.model, inline=lambda q: True, what="Intermediates.available")
        o2 = fa.run("intermediates:Intermediates.available", lambda: dict(self=me["self"]))
        got = o2[0].value if len(o2) == 1 and o2[0].kind == "return" else None
    ctx.check(rule, av, got == flat, "available = all registered classes by class name",
              f"Intermediates().available for the registry {reg} is {got}, expected {flat}", key="available")
    isub = ctx.model.fn("intermediates:RegisteredIntermediate.__init_subclass__")
    sx = Symex(ctx.model, inline=lambda q: True, what="__init_subclass__")
    from ..symex import ClassRef
    outs = sx.run(isub, lambda: dict(cls=ClassRef(ctx.model.module("intermediates"), "t2_1")))
    c = sym("t2_1")
    want = T("setitem", T("item", T("attr", c, "_registry"), T("attr", c, "_itmd_type")), T("attr", c, "__name__"), T("call", "t2_1", (), ()))
    paths = [o for o in outs if o.kind == "return" and any(not pol and a.op == "cmp" and a.args[0] == "in" and
                                                          a.args[1] == T("attr", c, "__name__") for a, pol in o.path)]
    want2 = T("setitem", T("item", T("attr", c, "_registry"), "t_amplitude"), T("attr", c, "__name__"), T("call", "t2_1", (), ()))
    ctx.check(rule, isub, bool(paths) and all(want in o.effects or want2 in o.effects for o in paths),
              "classes registered as an instance under their class name",
              f"__init_subclass__ of a class that is not registered yet: effects {[o.effects for o in paths]}, expected {show(want)}",
              key="register")
    from . import c19
    c19.r19h(ctx)
    _r11e_lookup(ctx)


def _r11e_lookup(ctx):
    """Obj.expand_intermediates: the definition is the registry entry under the default long name of the tensor and is
    expanded on the tensor's own indices in the order the tensor lists them"""
    rule = "R11e"
    ob = ctx.model.fn("expr_container:Obj.expand_intermediates")
    calls_seen = []

    def longname(sx_, a, kw):
        d = kw.get("use_default_names", a[1] if len(a) > 1 else False)
        return "t9_9" if d is True else "configured_name"
    itm = Obj(None, "ITMD")
    other = Obj(None, "OTHER")

    def expand(tag):
        def f(sx_, a, kw):
            calls_seen.append((tag, tuple(a), dict(kw)))
            return sym(f"{tag}.expanded")
        return f
    itm.attrs["expand_itmd"] = expand("ITMD")
    other.attrs["expand_itmd"] = expand("OTHER")

    def intermediates(sx_, a, kw):
        o = Obj(None, "Intermediates()")
        o.attrs["available"] = {"t9_9": itm, "configured_name": other}
        return o
    idx = tuple(mk_index(x) for x in "ijab")
    sx = Symex(ctx.model, inline=lambda q: q.split(".")[-1] not in ("longname",), hooks={"longname": longname, "Intermediates": intermediates},
               what="Obj.expand_intermediates")

    def args():
        del calls_seen[:]
        base = Obj("sympy_objects:Amplitude", "tensor")
        return dict(self=Obj("expr_container:Obj", "obj", base=base, sympy=base, exponent=1, idx=idx, assumptions={}), target=idx,
                    return_sympy=True, fully_expand=sym("LEVEL"))
    outs = sx.run(ob, args)
    ok = len(outs) >= 1 and all(o.kind == "return" for o in outs) and calls_seen and all(c[0] == "ITMD" for c in calls_seen)
    ctx.check(rule, ob, ok, "definition looked up in the registry under the default long name",
              f"Obj.expand_intermediates expands {[c[0] for c in calls_seen]} (outcomes {outs[:2]}): the registry is keyed by the default "
              "long name of the tensor", key="lookup")
    good = calls_seen and all(tuple(c[2].get("indices", c[1][0] if c[1] else ())) == idx and c[2].get("fully_expand", None) == sym("LEVEL")
                              for c in calls_seen)
    ctx.check(rule, ob, bool(good), "expanded on the indices of the tensor in the order it lists them, expansion level forwarded",
              f"Obj.expand_intermediates calls expand_itmd with {[(c[1], c[2]) for c in calls_seen]}", key="lookup arguments")


def r11f(ctx):
    rule = "R11f"
    tab = tensor_table(ctx)
    for name, info in tab.items():
        d = info["default_idx"]
        got = info["idx"]
        ctx.check(rule, info["cls"], list(got) == list(d), f"{name}: tensor.idx reproduces {tuple(d)}",
                  f"{name}: Obj.expand_intermediates hands the indices to expand_itmd in the order {got} (read back from the constructed "
                  f"{info['kind']}), but the definition expects _default_idx order {tuple(d)}", fn=f"intermediates:{name}", key=f"order {name}")
        ctx.check(rule, info["cls"], info["built"] == info["given"] and info["sign"] == 1,
                  f"{name}: construction keeps the default index groups {info['given']} and the sign",
                  f"{name}: the default index groups {info['given']} are stored as {info['built']} with sign {info['sign']}: construction "
                  "permutes the defaults and the read-back order / sign differs from the definition", fn=f"intermediates:{name}",
                  key=f"canonical {name}")
        flat = [x for g in info["given"] for x in g]
        ctx.check(rule, info["cls"], sorted(flat) == sorted(d) and len(set(flat)) == len(flat), f"{name}: _build_tensor distributes every index once",
                  f"{name}: _build_tensor builds the tensor on {info['given']}; the indices {tuple(d)} are not used exactly once",
                  fn=f"intermediates:{name}", key=f"partition {name}")


# ---------------------------------------------------------------------------
# R11h / R11i: the pool of matches of a long intermediate (concrete decision tables)

LV = FI + "LongItmdVariants."


def _pools():
    """Small pools {itmd_indices: {remainder: {positions: [(term_i, pref, unit pref)]}}}: hand-made corner cases and a
    deterministic enumeration (position order, empty lists, terms listed at none / some / all positions)."""
    F = Fraction
    yield {("i", "a"): {"R0": {(0,): [(0, 1, 1), (1, 2, 1)], (1,): [(2, 1, 1)], (0, 1): [(0, 1, 1), (3, 1, 2)]}, "R1": {(0,): [(5, 1, 1)]}},
           ("j", "b"): {"R2": {(1,): [(0, 1, 1)], (0,): [(4, 1, 1), (0, 3, 1)]}}}
    yield {("i", "a"): {"R0": {(0,): [(4, 1, 1)], (1,): [(0, 1, 1)], (2,): [(0, F(1, 2), 1), (0, 1, -1), (1, 1, 1)]}}}
    yield {("i", "a"): {"R0": {(0,): [(0, 1, 1)], (1,): [(1, 1, 1)]}, "R1": {(0,): [(2, 1, 1)]}}, ("j", "b"): {"R0": {(0,): [(0, 1, 1)]}}}
    yield {("i", "a"): {"R0": {}}, ("j", "b"): {}}
    yield {}
    import itertools
    import random
    rnd = random.Random(11)
    for n in range(40):
        pool = {}
        for ik in range(rnd.randint(1, 3)):
            rems = {}
            for rk in range(rnd.randint(0, 3)):
                pos = {}
                for pk in rnd.sample([(0,), (1,), (2,), (0, 1), (1, 2), (0, 1, 2)], rnd.randint(0, 4)):
                    pos[pk] = [(rnd.randint(0, 4), rnd.choice([1, -1, F(1, 2)]), rnd.choice([1, -1, 2])) for _ in range(rnd.randint(0, 3))]
                rems[f"R{rk}"] = pos
            pool[("i", "a", ik)] = rems
        yield pool


def _copy_pool(p):
    return {k: {r: {pos: list(ms) for pos, ms in d.items()} for r, d in v.items()} for k, v in p.items()}


def r11h(ctx):
    """pool clean-up of LongItmdVariants: evaluated on concrete pools against the specification"""
    rule = "R11h"
    ru = ctx.model.fn(LV + "remove_used_terms")
    ce = ctx.model.fn(LV + "clean_empty")
    sx = Symex(ctx.model, inline=lambda q: True, what="LongItmdVariants clean-up")
    n = 0
    for k, pool in enumerate(_pools()):
        for used in ([0], [0, 2], [1, 3, 4], [], [0, 1, 2, 3, 4, 5]):
            # specification: no match of a used term survives anywhere, every other match survives in order, positions
            # whose list became empty disappear (positions empty before stay as they are only if they were non-empty)
            want = {}
            for ik, rems in pool.items():
                want[ik] = {}
                for r, poss in rems.items():
                    want[ik][r] = {}
                    for pos, ms in poss.items():
                        left = [m for m in ms if m[0] not in used]
                        if left:
                            want[ik][r][pos] = left
            st = {}

            def args():
                st["p"] = _copy_pool(pool)
                return dict(self=st["p"], used_terms=list(used))
            outs = sx.run(ru, args)
            ok = len(outs) == 1 and outs[0].kind == "return" and st["p"] == want
            n += 1
            if not ok:
                left = sorted({m[0] for rems in st["p"].values() for poss in rems.values() for ms in poss.values() for m in ms} & set(used))
                ctx.bad(rule, ru, f"remove_used_terms({used}) on the pool {pool} leaves {st['p']}, expected {want}"
                        + (f": matches of the used terms {left} stay in the pool and the terms are factored a second time" if left else ""),
                        key=f"remove_used_terms pool {k} used {used}")
            else:
                ctx.ok(rule, ru, f"remove_used_terms({used}) on pool {k}: every match of a used term removed, everything else kept",
                       key=f"remove_used_terms pool {k} used {used}")
            # clean_empty afterwards: exactly the empty remainders and the indices without remainders vanish
            want2 = {ik: {r: poss for r, poss in rems.items() if poss} for ik, rems in want.items()}
            want2 = {ik: rems for ik, rems in want2.items() if rems}
            st2 = {}

            def args2():
                st2["p"] = _copy_pool(want)
                return dict(self=st2["p"])
            outs = sx.run(ce, args2)
            ok = len(outs) == 1 and outs[0].kind == "return" and st2["p"] == want2
            ctx.check(rule, ce, ok, f"clean_empty on pool {k}/{used}: empty remainders and index entries removed, nothing else",
                      f"clean_empty on {want} leaves {st2['p']}, expected {want2}", key=f"clean_empty pool {k} used {used}")
    ctx.floor(rule, "pool clean-up evaluations", n, 100)


def r11i(ctx):
    """LongItmdVariants.add: a match is filed under the first stored remainder it can be mapped onto, with BOTH stored
    prefactors multiplied by the sign of that mapping; otherwise it founds a new remainder with the prefactors as given"""
    rule = "R11i"
    fn = ctx.model.fn(LV + "add")
    F = Fraction
    IDX = ("i", "a")
    cases = []
    for pref, unit in ((F(1, 2), 3), (2, 2), (-1, F(1, 4)), (1, 1)):
        for signs in (("R0", -1), ("R0", 1), ("R1", -1), ("R1", 1), (None, None)):
            cases.append((pref, unit, signs))
    n = 0
    for pref, unit, (hit, sign) in cases:
        for existing in ("other", "same", "none", "dup", "dupsign"):
            if existing == "none":
                pool0 = {}
            else:
                pool0 = {IDX: {"R0": {(0, 1): [(7, 1, 1)]}, "R1": {(2,): [(8, 1, 1)]}}, ("j", "b"): {"R0": {(0, 1): [(9, 1, 1)]}}}
                if existing == "same":
                    pool0[IDX][hit or "R0"][(0, 1)] = [(1, 5, 5)]
                if existing in ("dup", "dupsign") and hit is not None:
                    pool0[IDX][hit][(0, 1)] = [(1, pref * sign, unit * sign * (-1 if existing == "dupsign" else 1))]
            st = {}
            seen = []

            def cmp_model(sx_, a, kw):
                ref = kw.get("ref_remainder", a[1] if len(a) > 1 else None)
                seen.append((kw.get("remainder", a[0] if a else None), ref, kw.get("itmd_indices", a[2] if len(a) > 2 else None)))
                return sign if ref == hit else None
            sx = Symex(ctx.model, inline=lambda q: not q.endswith("_compare_remainder"), hooks={"_compare_remainder": cmp_model},
                       what="LongItmdVariants.add")

            def args():
                st["p"] = _copy_pool(pool0)
                del seen[:]
                return dict(self=st["p"], term_i=1, itmd_indices=IDX, remainder="NEW", matching_itmd_terms=(1, 0), prefactor=pref,
                            unit_factorization_pref=unit)
            outs = sx.run(fn, args)
            want = _copy_pool(pool0)
            want.setdefault(IDX, {})
            if hit is not None and hit in want[IDX]:
                rec = (1, pref * sign, unit * sign)
                lst = want[IDX][hit].setdefault((0, 1), [])
                if not any(m[0] == 1 and m[1] == rec[1] and abs(m[2]) == abs(rec[2]) for m in lst):
                    lst.append(rec)
            else:
                want[IDX]["NEW"] = {(0, 1): [(1, pref, unit)]}
            got = st.get("p")
            ok = len(outs) == 1 and outs[0].kind == "return" and got == want
            n += 1
            what = f"add(pref={pref}, unit={unit}) with stored remainders matching {hit} by {sign} [{existing}]"
            why = f"{what}: pool becomes {got}, expected {want}"
            if not ok and got is not None and hit is not None:
                recs = [m for m in got.get(IDX, {}).get(hit, {}).get((0, 1), []) if m[0] == 1]
                if recs and recs[-1][1] == pref * sign and recs[-1][2] != unit * sign:
                    why += (": the stored prefactor refers to the stored remainder, the unit factorisation prefactor to the unmapped one; "
                            "_factor_mixed_prefactors then completes the term with the wrong sign")
            ctx.check(rule, fn, ok, f"{what}: record filed with both prefactors referring to the stored remainder", why,
                      key=f"add {pref} {unit} {hit} {sign} {existing}")
            # the comparison is made against the stored remainders of the same itmd indices, with those indices fixed
            okc = all(r == "NEW" and i == IDX for r, ref, i in seen) and (existing == "none" or [ref for _, ref, _ in seen] ==
                                                                          (["R0", "R1"][:(["R0", "R1"].index(hit) + 1) if hit else 2]))
            ctx.check(rule, fn, okc, f"{what}: compared with the stored remainders of these itmd indices in order",
                      f"{what}: _compare_remainder called with {seen}", key=f"add compare {pref} {unit} {hit} {sign} {existing}")
    ctx.floor(rule, "evaluations of LongItmdVariants.add", n, 60)


# ---------------------------------------------------------------------------
# R11j: _compare_remainder decides equality of two remainders up to a sign (value level)
#
# A remainder is modelled concretely: a sum of terms (coefficient, tensor part, orbital-energy denominator, numerator),
# every part a sorted tuple of factors over index names.  The expression operations the function uses are modelled by
# what they compute: ``a - b`` combines syntactically identical terms (as sympy does), ``len`` counts terms (0 -> 1),
# ``factor_eri_parts`` groups terms whose tensor parts agree up to a renaming of the non-fixed indices and applies that
# renaming to the complete term, ``factor_denom`` groups terms by their denominator.

NUMERATOR_ROW_IS_VIOLATION = True   # numerators are part of the remainder (defect F25, repaired in /repo e7f8b9a)


def _rn(part, mp):
    """renaming applied to a part (tuple of factors; a factor is (name, idx...) or a bracket (('+'|'-', idx), ...))"""
    out = []
    for f in part:
        if f and isinstance(f[0], tuple):
            out.append(tuple(sorted((sg, mp.get(i, i)) for sg, i in f)))
        else:
            out.append((f[0],) + tuple(mp.get(i, i) for i in f[1:]))
    return tuple(sorted(out, key=repr))


def _names(part):
    out = []
    for f in part:
        for x in (f if f and isinstance(f[0], tuple) else f[1:]):
            nm_ = x[1] if isinstance(x, tuple) else x
            if nm_ not in out:
                out.append(nm_)
    return out


def _renamings(src, dst, fixed):
    """renamings of the non-fixed indices (space preserving) that turn the part(s) ``src`` into ``dst``; a list of
    parts is compared part by part under one common renaming"""
    import itertools
    srcs, dsts = (src, dst) if isinstance(src, list) else ([src], [dst])
    free_s, free_d = [], []
    for part, acc in [(p_, free_s) for p_ in srcs] + [(p_, free_d) for p_ in dsts]:
        for x in _names(part):
            if x not in fixed and x not in acc:
                acc.append(x)
    if sorted(space_name(x) for x in free_s) != sorted(space_name(x) for x in free_d):
        return
    for perm in itertools.permutations(free_d):
        if any(space_name(a) != space_name(b) for a, b in zip(free_s, perm)):
            continue
        mp = dict(zip(free_s, perm))
        if all(_rn(a, mp) == _rn(b, {}) for a, b in zip(srcs, dsts)):
            yield mp


def mono(coef, eri=(), denom=(), num=()):
    return (coef, _rn(eri, {}), _rn(denom, {}), _rn(num, {}))


def value_ratio(t, ref, fixed):
    """+1/-1 if the single terms satisfy t == +-ref for every value of the tensors (renaming of summation indices
    allowed), else None - the specification of _compare_remainder"""
    if abs(t[0]) != abs(ref[0]):
        return None
    for mp in _renamings([t[1], t[2], t[3]], [ref[1], ref[2], ref[3]], fixed):
        return 1 if t[0] == ref[0] else -1
    return None


class ExprWorld:
    """concrete expression records with the operations _compare_remainder uses"""

    def __init__(self, target):
        self.target = tuple(mk_index(x) for x in target)
        self.n = 0
        self.log = []

    def expr(self, terms, fixed=None, tag="expr"):
        comb = {}
        for c, e_, d, n_ in terms:
            comb[(e_, d, n_)] = comb.get((e_, d, n_), 0) + c
        terms = [(c,) + k for k, c in comb.items() if c != 0]
        self.n += 1
        from ..symex import Ext
        o = Obj(None, f"{tag}#{self.n}")
        state = {"fixed": fixed}
        o.attrs.update(_terms=terms, _state=state, assumptions={}, sympy=Ext("S.Zero") if not terms else Obj(None, f"NZ#{self.n}", is_number=False),
                       terms=[Obj(None, f"{tag}#{self.n}.term{k}", target=self.target) for k in range(max(1, len(terms)))])
        o.attrs["copy"] = lambda sx, a, kw: self.expr(terms, state["fixed"], tag)

        def set_target(sx, a, kw):
            state["fixed"] = tuple(nm(x) for x in (a[0] if a else kw.get("target_idx")))
            self.log.append(("fixed", state["fixed"]))
        o.attrs["set_target_idx"] = set_target

        def binop(sx, op, left, right, node):
            if not (isinstance(left, Obj) and isinstance(right, Obj) and "_terms" in left.attrs and "_terms" in right.attrs):
                return NotImplemented
            sign = {ast.Sub: -1, ast.Add: 1}.get(type(op))
            if sign is None:
                return NotImplemented
            return self.expr(left.attrs["_terms"] + [(sign * c, e_, d, n_) for c, e_, d, n_ in right.attrs["_terms"]],
                             left.attrs["_state"]["fixed"], "sum")
        o.attrs["$binop"] = binop
        return o

    # ---- models of the library functions
    def len_(self, sx, a, kw):
        if len(a) == 1 and isinstance(a[0], Obj) and "_terms" in a[0].attrs:
            return max(1, len(a[0].attrs["_terms"]))
        return NotImplemented

    def factor_eri_parts(self, sx, a, kw):
        x = a[0] if a else kw.get("expr")
        fixed = x.attrs["_state"]["fixed"]
        self.log.append(("factor_eri_parts", fixed))
        if fixed is None:
            raise AnalysisError("R11j: factor_eri_parts on an expression without fixed (target) indices")
        groups = []
        for t in x.attrs["_terms"] or [(0, (), (), ())]:
            for g in groups:
                mp = next(_renamings(t[1], g[0][1], fixed), None)
                if mp is not None:
                    g.append((t[0], _rn(t[1], mp), _rn(t[2], mp), _rn(t[3], mp)))
                    break
            else:
                groups.append([t])
        return [self.expr(g, fixed, "eri_group") for g in groups]

    def factor_denom(self, sx, a, kw):
        x = a[0] if a else kw.get("expr")
        self.log.append(("factor_denom",))
        groups = []
        for t in x.attrs["_terms"] or [(0, (), (), ())]:
            for g in groups:
                if g[0][2] == t[2]:
                    g.append(t)
                    break
            else:
                groups.append([t])
        return [self.expr(g, x.attrs["_state"]["fixed"], "denom_group") for g in groups]

    @staticmethod
    def oracle(sx, atom):
        if atom.op == "cmp" and atom.args[0] in ("is", "=="):
            names = [str(x.args[0]) for x in atom.args[1:] if isinstance(x, T) and x.op == "sym"]
            if len(names) == 2 and any(n_.startswith("NZ#") for n_ in names):
                return False
        return None


def _br(*signed):
    return tuple((s_[0], s_[1:]) for s_ in signed)


def remainder_table():
    """(name, remainder term, reference term) - fixed indices: targets i, j and itmd indices a, b"""
    Z = ("Z", "i", "j", "a", "b")
    D1, D2 = _br("+i", "-a"), _br("+j", "-b")
    rows = [
        ("identical", mono(1, [Z], [D1]), mono(1, [Z], [D1])),
        ("negated", mono(-1, [Z], [D1]), mono(1, [Z], [D1])),
        ("identical numbers", mono(1), mono(1)),
        ("negated numbers", mono(-1), mono(1)),
        ("no fraction", mono(1, [Z]), mono(1, [Z])),
        ("contracted names", mono(1, [("X", "i", "k"), ("Y", "k", "c", "a")], [_br("+k", "-c"), D2]),
         mono(1, [("X", "i", "l"), ("Y", "l", "d", "a")], [_br("+l", "-d"), D2])),
        ("contracted names, negated", mono(-1, [("X", "i", "k"), ("Y", "k", "c", "a")], [_br("+k", "-c")]),
         mono(1, [("X", "i", "l"), ("Y", "l", "d", "a")], [_br("+l", "-d")])),
        ("contracted names crossed", mono(1, [("X", "i", "k"), ("Y", "j", "l")], [_br("+k", "-a"), _br("+l", "+k", "-b")]),
         mono(1, [("X", "i", "l"), ("Y", "j", "k")], [_br("+l", "-a"), _br("+k", "+l", "-b")])),
        ("same tensors, other denominator", mono(1, [Z], [D1]), mono(-1, [Z], [D2])),
        ("same tensors, other denominator (same sign)", mono(1, [Z], [D1]), mono(1, [Z], [D2])),
        ("same tensors, denominator on other contracted index", mono(1, [("X", "i", "k"), ("Y", "k", "l", "a")], [_br("+k", "-a")]),
         mono(1, [("X", "i", "k"), ("Y", "k", "l", "a")], [_br("+l", "-a")])),
        ("same tensors, one without denominator", mono(1, [Z], [D1]), mono(1, [Z])),
        ("same tensors, squared denominator", mono(1, [Z], [D1, D1]), mono(-1, [Z], [D1])),
        ("different tensors", mono(1, [Z], [D1]), mono(1, [("W", "i", "j", "a", "b")], [D1])),
        ("different tensors, negated", mono(-1, [("X", "i", "k"), ("Y", "k", "a")]), mono(1, [("X", "i", "k"), ("X", "k", "a")])),
        ("itmd index exchanged", mono(1, [("X", "i", "a"), ("Y", "j", "b")]), mono(1, [("X", "i", "b"), ("Y", "j", "a")])),
        ("target index exchanged", mono(1, [("X", "i", "k"), ("Y", "j", "k")]), mono(-1, [("X", "j", "k"), ("Y", "i", "k")])),
        ("contracted versus itmd index", mono(1, [("X", "i", "k"), ("Y", "k", "j")]), mono(1, [("X", "i", "a"), ("Y", "a", "j")])),
    ]
    numer = [
        ("same denominator, other numerator", mono(1, [Z], [D1], [_br("+i")]), mono(1, [Z], [D1], [_br("+j")])),
        ("same denominator, other numerator (sum)", mono(1, [Z], [D1], [_br("+i", "+j")]), mono(-1, [Z], [D1], [_br("+a", "+b")])),
        ("same numerator", mono(-1, [Z], [D1], [_br("+i", "+j")]), mono(1, [Z], [D1], [_br("+i", "+j")])),
    ]
    return rows, numer


def r11j(ctx):
    """_compare_remainder(remainder, ref, itmd_indices) returns +1/-1 exactly when remainder == +-ref in value with the
    target and itmd indices fixed, and None otherwise"""
    rule = "R11j"
    fn = ctx.model.fn(FI + "_compare_remainder")
    fixed = ("i", "j", "a", "b")
    rows, numer = remainder_table()
    n = 0
    for name, t, ref in rows + numer:
        w = ExprWorld("ij")
        hooks = {"factor_eri_parts": w.factor_eri_parts, "factor_denom": w.factor_denom, "len": w.len_}
        sx = Symex(ctx.model, inline=lambda q: q.split(":")[-1] not in ("factor_eri_parts", "factor_denom"), hooks=hooks,
                   what=f"_compare_remainder[{name}]", oracle=w.oracle, obj_identity=True)
        outs = sx.run(fn, lambda: dict(remainder=w.expr([t], None, "remainder"), ref_remainder=w.expr([ref], None, "reference"),
                                       itmd_indices=tuple(mk_index(x) for x in "ab")))
        want = value_ratio(t, ref, fixed)
        what = f"_compare_remainder[{name}]"
        n += 1
        got = outs[0].value if len(outs) == 1 and outs[0].kind == "return" else f"<{outs[:2]}>"
        ok = len(outs) == 1 and outs[0].kind == "return" and got == want and type(got) is type(want)
        why = (f"{what}: returns {got!r} for the remainder {t} and the stored remainder {ref}; in value the remainder is "
               f"{'neither the stored remainder nor its negative' if want is None else ('+' if want == 1 else '-') + ' the stored remainder'}"
               f" (expected {want!r})")
        if want is None and got in (1, -1):
            why += (": matches with different remainders are pooled under one remainder and a long intermediate is factored from terms "
                    "that do not share a common factor")
        in_numer = any(name == r[0] for r in numer)
        if in_numer and not ok and not NUMERATOR_ROW_IS_VIOLATION:
            ctx.note(f"R11j (not counted): {why}")
            ctx.ok(rule, fn, f"{what}: orbital-energy numerators are not compared (documented limitation, reported as a note)",
                   key=f"remainder {name}")
            continue
        ctx.check(rule, fn, ok, f"{what} -> {want!r}", why, key=f"remainder {name}")
        if ok and any(x[0] == "fixed" for x in w.log):
            fx = [x[1] for x in w.log if x[0] == "fixed"]
            ctx.check(rule, fn, all(tuple(f_) == fixed for f_ in fx) and len(fx) >= 2,
                      f"{what}: target and itmd indices fixed in both remainders",
                      f"{what}: the indices fixed during the comparison are {fx}, expected {fixed} in both remainders", key=f"fixed {name}")
    ctx.floor(rule, "remainder pairs evaluated", n, 18)
    # refusals
    for tag, mk_args, exc in (
            ("vanishing remainder", lambda w: dict(remainder=w.expr([], None, "remainder"), ref_remainder=w.expr([mono(1)], None, "reference")), "ValueError"),
            ("vanishing reference", lambda w: dict(remainder=w.expr([mono(1)], None, "remainder"), ref_remainder=w.expr([], None, "reference")), "ValueError")):
        w = ExprWorld("ij")
        sx = Symex(ctx.model, inline=lambda q: q.split(":")[-1] not in ("factor_eri_parts", "factor_denom"),
                   hooks={"factor_eri_parts": w.factor_eri_parts, "factor_denom": w.factor_denom, "len": w.len_},
                   what=f"_compare_remainder[{tag}]", oracle=w.oracle, obj_identity=True)
        outs = sx.run(fn, lambda: dict(itmd_indices=tuple(mk_index(x) for x in "ab"), **mk_args(w)))
        ctx.check(rule, fn, outs and all(o.kind == "raise" and o.exc == exc for o in outs), f"_compare_remainder: {tag} refused",
                  f"_compare_remainder: {tag} gives {outs[:2]}", key=f"remainder guard {tag}")


# ---------------------------------------------------------------------------
# R11k: _compare_terms - the denominator brackets scheduled for cancellation


class BracketWorld:
    """orbital-energy brackets as concrete values (sorted signed index names): ``subs`` renames, ``a - b`` vanishes iff
    the values agree; a bracket object is an Expr (exponent 1) or a polynom (base, exponent)"""

    def __init__(self):
        self.values = {}

    def value(self, key):
        key = tuple(sorted(key))
        if key not in self.values:
            from ..symex import Ext
            o = Obj(None, "NZ#bracket" + "".join(key))
            o.attrs["_key"] = key

            def subs(sx, a, kw, key=key):
                mp = a[0] if a and isinstance(a[0], dict) else dict(a[0]) if a else {}
                if mp.get("$invalid"):
                    return Ext("S.Zero")
                return self.value(tuple(x[0] + mp.get(x[1:], x[1:]) for x in key))

            def binop(sx, op, left, right, node):
                if isinstance(op, ast.Sub) and isinstance(left, Obj) and isinstance(right, Obj) and "_key" in left.attrs and "_key" in right.attrs:
                    return Ext("S.Zero") if left.attrs["_key"] == right.attrs["_key"] else Obj(None, "NZ#difference")
                return NotImplemented
            o.attrs.update(subs=subs)
            o.attrs["$binop"] = binop
            self.values[key] = o
        return self.values[key]

    def bracket(self, tag, key, exponent, as_expr=None):
        v = self.value(key)
        if as_expr if as_expr is not None else exponent == 1:
            return Obj("expr_container:Expr", tag, sympy=v, _len=len(key))
        return Obj("expr_container:Polynom", tag, base=v, base_and_exponent=(v, exponent), exponent=exponent, _len=len(key))

    @staticmethod
    def oracle(sx, atom):
        if atom.op == "cmp" and atom.args[0] in ("is", "=="):
            names = [str(x.args[0]) for x in atom.args[1:] if isinstance(x, T) and x.op == "sym"]
            if len(names) == 2 and any(n_.startswith("NZ#") for n_ in names):
                return False
        return None


def denominator_scenarios():
    """name -> (term brackets [(key, exponent)], itmd brackets [(key over itmd names, exponent)], eri variants [(eri_i, sub)])"""
    B = lambda *xs: tuple(xs)
    D1 = B("+a", "+b", "-i", "-j")            # the t2_1 bracket on the itmd's own names
    to_mnef = {"i": "m", "j": "n", "a": "e", "b": "f"}
    T1 = B("+e", "+f", "-m", "-n")
    T2 = B("+c", "+d", "-k", "-l")
    S1 = B("+e", "-m")
    return {
        "same power": ([(T1, 1), (T2, 1)], [(D1, 1)], [([0], to_mnef)]),
        "term squared, itmd linear": ([(T2, 1), (T1, 2)], [(D1, 1)], [([0], to_mnef)]),
        "term cubed, itmd linear": ([(T1, 3)], [(D1, 1)], [([0, 1], to_mnef)]),
        "term cubed, itmd squared": ([(T1, 3), (T2, 2)], [(D1, 2)], [([0], to_mnef)]),
        "both squared": ([(T1, 2)], [(D1, 2)], [([0], to_mnef)]),
        "term linear, itmd squared": ([(T1, 1), (T2, 1)], [(D1, 2)], [([0], to_mnef)]),
        "two itmd brackets": ([(T1, 2), (S1, 3), (T2, 1)], [(B("+a", "-i"), 2), (D1, 1)], [([0, 2], to_mnef)]),
        "two variants": ([(T1, 2), (T2, 1)], [(D1, 1)], [([0], to_mnef), ([1], {"i": "k", "j": "l", "a": "c", "b": "d"}),
                                                         ([2], {"i": "k", "j": "n", "a": "c", "b": "d"})]),
        "same bracket for two itmd brackets": ([(T1, 2)], [(D1, 1), (B("+b", "+a", "-j", "-i"), 1)], [([0], to_mnef)]),
        "no bracket of that length": ([(S1, 2)], [(D1, 1)], [([0], to_mnef)]),
        "no bracket with that value": ([(T2, 2)], [(D1, 1)], [([0], to_mnef)]),
        "invalid substitution": ([(T1, 2)], [(D1, 1)], [([0], {"$invalid": True}), ([1], to_mnef)]),
        "itmd without denominator": ([(T1, 2)], [], [([0, 1], to_mnef), ([2], {})]),
        "no eri variant": ([(T1, 2)], [(D1, 1)], None),
    }


def r11k(ctx):
    """_compare_terms: every returned variant cancels, for each denominator bracket of the intermediate, the matching
    bracket of the term exactly as often as the INTERMEDIATE holds it (so the factored term keeps the bracket to the
    power term exponent - itmd exponent), every term bracket serves one itmd bracket only, and the data of the ERI
    comparison are handed through; None when a bracket of the intermediate has no partner"""
    rule = "R11k"
    fn = ctx.model.fn(FI + "_compare_terms")
    n = 0
    for name, (tbr, ibr, eri_vs) in denominator_scenarios().items():
        w = BracketWorld()
        log = []

        def eri_parts(sx, a, kw):
            b = dict(zip(("term", "itmd_term", "term_data", "itmd_term_data"), a))
            b.update(kw)
            log.append((nm(b.get("term")), nm(b.get("itmd_term")), b.get("term_data"), b.get("itmd_term_data")))
            if eri_vs is None:
                return None
            return [(list(e_i), sym(f"SUB_DICT{k}"), dict(sub), sym(f"FACTOR{k}")) for k, (e_i, sub) in enumerate(eri_vs)]

        def args():
            del log[:]
            term = Obj(None, "TERM", denom_brackets=[w.bracket(f"term.bk{k}", key, ex) for k, (key, ex) in enumerate(tbr)],
                       denom=Obj(None, "TERM.denom", sympy=Obj(None, "TERM.denom.sympy", is_number=not tbr)))
            itmd = Obj(None, "ITMD", denom_brackets=[w.bracket(f"itmd.bk{k}", key, ex) for k, (key, ex) in enumerate(ibr)],
                       denom=Obj(None, "ITMD.denom", sympy=Obj(None, "ITMD.denom.sympy", is_number=not ibr)))
            return dict(term=term, itmd_term=itmd, term_data=sym("TERM_DATA"), itmd_term_data=sym("ITMD_DATA"))
        hooks = {"_compare_eri_parts": eri_parts,
                 "len": lambda sx_, a_, kw_: a_[0].attrs["_len"] if len(a_) == 1 and isinstance(a_[0], Obj) and "_len" in a_[0].attrs else NotImplemented}
        sx = Symex(ctx.model, inline=lambda q: q.split(":")[-1] != "_compare_eri_parts", hooks=hooks, what=f"_compare_terms[{name}]",
                   oracle=w.oracle, obj_identity=True)
        outs = sx.run(fn, args)
        what = f"_compare_terms[{name}]"
        # specification
        want = None
        if eri_vs is not None:
            want = []
            for k, (e_i, sub) in enumerate(eri_vs):
                used, denom_i, ok_v = set(), [], True
                for key, m in ibr:
                    if sub.get("$invalid"):
                        ok_v = False
                        break
                    val = tuple(sorted(x[0] + sub.get(x[1:], x[1:]) for x in key))
                    partner = next((j for j, (tk, tex) in enumerate(tbr) if j not in used and tuple(sorted(tk)) == val), None)
                    if partner is None:
                        ok_v = False
                        break
                    used.add(partner)
                    denom_i += [partner] * m
                if ok_v:
                    want.append((k, sorted(denom_i)))
            want = want or None
        # a term bracket held to a LOWER power than the intermediate's: cancelling it anyway (negative remaining power) and
        # refusing the match both preserve the value - either is accepted
        alt = want
        if eri_vs is not None and any(tex < m for tk, tex in tbr for key, m in ibr):
            alt = []
            for k, (e_i, sub) in enumerate(eri_vs):
                used, denom_i, ok_v = set(), [], not sub.get("$invalid")
                for key, m in ibr if ok_v else ():
                    val = tuple(sorted(x[0] + sub.get(x[1:], x[1:]) for x in key))
                    partner = next((j for j, (tk, tex) in enumerate(tbr) if j not in used and tuple(sorted(tk)) == val and tex >= m), None)
                    if partner is None:
                        ok_v = False
                        break
                    used.add(partner)
                    denom_i += [partner] * m
                if ok_v:
                    alt.append((k, sorted(denom_i)))
            alt = alt or None
        n += 1
        if len(outs) != 1 or outs[0].kind != "return":
            ctx.bad(rule, fn, f"{what}: {outs[:2]}", key=f"terms shape {name}")
            continue
        got = outs[0].value
        why = None
        if alt != want and (got is None) == (alt is None) and (got is None or (isinstance(got, list) and len(got) == len(alt))):
            want = alt
        if want is None:
            if got is not None:
                why = f"returns {show(got)[:200]} although a denominator bracket of the intermediate has no partner in the term"
        elif not isinstance(got, list) or len(got) != len(want):
            why = f"returns {show(got)[:300]}, expected {len(want)} variant(s) with the brackets {[d for _, d in want]} to cancel"
        else:
            for v, (k, denom_i) in zip(got, want):
                e_i, sub = eri_vs[k]
                if not isinstance(v, dict) or sorted(v.get("denom_i", ["?"])) != denom_i:
                    g = v.get("denom_i") if isinstance(v, dict) else v
                    left = {j: tbr[j][1] - list(g).count(j) for j in set(g)} if isinstance(g, list) and all(isinstance(j, int) and j < len(tbr) for j in g) else "?"
                    left_w = {j: tbr[j][1] - denom_i.count(j) for j in set(denom_i)}
                    why = (f"variant {k} schedules the term brackets {g} for cancellation, expected {denom_i} (each matching bracket as often as "
                           f"the intermediate holds it): the factored term keeps the brackets to the powers {left}, but term / intermediate "
                           f"leaves {left_w} - a factor of the orbital-energy denominator is lost or gained")
                    break
                if v.get("eri_i") != list(e_i) or v.get("sub") != sym(f"SUB_DICT{k}") or v.get("factor") != sym(f"FACTOR{k}") or \
                        v.get("sub_list") != dict(sub):
                    why = f"variant {k} does not hand through the data of the ERI comparison: {show(v)[:300]}"
                    break
        ctx.check(rule, fn, why is None,
                  f"{what}: matching brackets cancelled as often as the intermediate holds them" if want else f"{what}: no variant",
                  f"{what} (term brackets {[(''.join(k_), e_) for k_, e_ in tbr]}, itmd brackets {[(''.join(k_), e_) for k_, e_ in ibr]}): {why}",
                  key=f"terms {name}")
        ctx.check(rule, fn, log == [("TERM", "ITMD", sym("TERM_DATA"), sym("ITMD_DATA"))], f"{what}: ERI parts compared once with the given data",
                  f"{what}: _compare_eri_parts called as {log}", key=f"terms eri {name}")
    ctx.floor(rule, "denominator scenarios of _compare_terms", n, 12)


def run(ctx):
    if ctx.want("R11h"):
        r11h(ctx)
    if ctx.want("R11i"):
        r11i(ctx)
    if ctx.want("R11j"):
        r11j(ctx)
    if ctx.want("R11k"):
        r11k(ctx)
    if ctx.want("R13h"):
        c13.r13h(ctx)
    if ctx.want("R13e"):
        # splitting / cancelling the fraction parts is what the factorisation removes integrals and brackets with
        c13.r13e(ctx)
    if ctx.want("R13d"):
        c13.r13d(ctx)
    for r, f in (("R11a", r11a), ("R11b", r11b), ("R11c", r11c), ("R11d", r11d), ("R11e", r11e), ("R11f", r11f)):
        if ctx.want(r):
            f(ctx)
    if ctx.want("R13g"):
        c13.r13g(ctx)
    if ctx.want("R08a"):
        c08.r08a(ctx, modules={"reduce_expr", "intermediates", "factor_intermediates"})
