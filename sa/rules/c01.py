"""C01 Wick evaluation: contraction table, recursion bookkeeping, prefilter
soundness, rule application - all decided on abstractly *evaluated* code
(sa.symex), compared with expectations that are written down independently
(a brute-force Fermi-vacuum expectation value in a small Fock space, the set of
signed complete pairings, a bipartite matching oracle, decision tables)."""
from __future__ import annotations

import itertools
from fractions import Fraction

from ..model import AnalysisError
from ..symex import Symex, Obj, ClassRef, Raised as SxRaised
from ..terms import (T, sym, t_mul, t_add, t_cmp, is_num, strip, expand_products, subterms, args_of, show, multiset,
                     multiset_diff)

EXPLANATION = (
    "Every function is evaluated by the abstract evaluator (sa.symex) on small abstract inputs; no verdict depends on "
    "source spelling (anchors: the functions wicks, _contract_operator_string, _contraction, "
    "_has_fully_contracted_contribution, Rules.apply, Rules.is_empty, their parameters, and the sympy/adcgen "
    "vocabulary they call). Branch conditions over symbolic values are decided by an oracle over the scenario's value "
    "domain (generic non-zero numbers), so `c is S.Zero`, `c == 0`, `not c` are the same test. "
    "R01a: func._contraction evaluated on all 36 (operator kind x space)^2 rows plus the rows with a shared index; "
    "the returned delta expression is evaluated numerically for every assignment of the orbitals of a 2 occ + 2 virt "
    "model to the indices (a fresh index is summed over its space) and must equal <Phi|p q|Phi> computed by applying "
    "the operators to the reference determinant; a row whose expectation value vanishes identically must return the "
    "canonical zero (the recursion prunes on it); an additional index (general-general rows) may be any index of the "
    "right space by value, but it has to come from the index registry (Indices().get_generic_indices: unique printed "
    "name) - a new Index object with a fixed name is reported (F34) - and it has to be drawn anew by every call: "
    "_contraction is evaluated three times in one call history on the same / equal general operator pair "
    "(functools.lru_cache/cache and module-level tables are part of the evaluated state) and the additional indices "
    "must be pairwise distinct; KroneckerDelta is modelled as sympy/adcgen "
    "evaluate it on construction (1 for identical indices, 0 for occupied/virtual); spin-labelled and non-fermionic "
    "operators must be refused. "
    "R01b: _contract_operator_string evaluated on operator tokens (n=2,4,6; 8 thorough) with the contraction left "
    "symbolic: the result, expanded into products, is every complete pairing exactly once with sign (-1)^crossings, "
    "the first argument of a contraction being the left operator; bookkeeping by position for repeated (equal) "
    "operators; vanishing contractions remove exactly the pairings that contain them (n=4, n=6). R01c: "
    "_has_fully_contracted_contribution (with every helper it calls; type(x) of an operator is its class) evaluated "
    "on every ordered string of up to four operators over kind x space, on six-operator strings in three (thorough: "
    "six) creator/annihilator patterns over all spaces and on the 729 counter vectors in {0,1,2}^6 arranged "
    "alternating and interleaved (thorough: also creators first and reversed; up to twelve operators): it may answer "
    "False only if the ordered string has no complete pairing of non-vanishing contractions (particle contraction "
    "F..Fd without occupied index, hole contraction Fd..F without virtual index), i.e. only if the expectation value "
    "vanishes identically - a screening that is sharper than counting is accepted. R01d: Rules.apply evaluated on "
    "four rule sets on an expression whose terms are expr_container.Term/Obj records around abstract sympy objects "
    "(name, space, type_as_str, ... are evaluated from the library's own properties): every tensor class "
    "(AntiSymmetricTensor, SymmetricTensor, Amplitude, NonSymmetricTensor) x name x block alone, squared tensors, "
    "Kronecker deltas, numbers, symbols sharing the name of a restricted tensor, and pairs of objects: the result is "
    "Expr(0) carrying the assumptions of the input plus exactly the terms without a tensor whose name is restricted AND "
    "whose block is excluded for that name, each once; empty rules (None, {}) return the input; non-Expr input refused; "
    "Rules.is_empty truth table; wicks evaluated on abstract sympy expressions (NO / bare operator, Add, Mul with "
    "0/1/2/4 operators and 0/2 commuting factors, symbol, tensor) x (rules None/given) x (delta flag): the result is "
    "[rules.apply(Expr(.)).sympy] [evaluate_deltas(.) exactly when requested] (commuting part x "
    "_contract_operator_string(operators in order)) with a type discipline on the layers (Expr wraps a plain object "
    "without assumptions, apply maps container to container outside the delta evaluation, a plain object is "
    "returned), zero for a single operator / NO / bare operator / a power of an operator alone or as a factor of a "
    "longer string (F42: sympy merges adjacent identical operators into Pow), the term-wise sum of wicks(term, same "
    "rules, same flag) for Add, doit(wicks=True) before the case split, foreign rules objects refused. R01e: the "
    "whole pipeline wicks -> _contract_operator_string -> prefilter -> _contraction evaluated end to end on a Mul "
    "built as sympy builds it (commuting factors first, adjacent identical operators merged into a power): A * "
    "operator string (all 6+36+216+1296 strings of one to four operators over kind x space, strings with repeated "
    "operators or indices incl. adjacent identical ones, six operators in a 3+3 orbital model) compared numerically "
    "with 3 * the brute-force expectation value for every orbital assignment; and with simplify_kronecker_deltas=True "
    "(F29) t_{subset of the operator indices} * operator string for all pairs, the four-operator strings that have a "
    "complete pairing (and a sample of the others) and two six-operator strings, where evaluate_deltas is a reference "
    "model of its documented contract (explicit targets, else Einstein convention): the indices on t are contracted, "
    "all other operator indices are target indices, and the result - summed over every non-target index it contains - "
    "must equal sum_contracted t * <Phi|string|Phi> for every assignment of the target indices, so a target index that "
    "is eliminated or renamed by the delta evaluation is a violation whatever the call looks like.")
ASSUMPTIONS = [
    "sympy's NO.doit(wicks=True)/expand, Mul/Add and KroneckerDelta algebra are trusted (modelled as doit/expand "
    "giving a sum of products, Mul/Add as product/sum, KroneckerDelta(i, j) as [orbital(i) == orbital(j)], S.Zero as "
    "0); the short cut NO -> 0 is required as written (its removal would rely on sympy's bracket removal)",
    "equality with the Fermi-vacuum expectation value is decided for operator strings of at most 4 (a few of 6 and "
    "8) operators in a model with 2 (3) occupied and 2 (3) virtual orbitals; longer strings are covered structurally "
    "by R01b (signed pairings up to n=8) only",
    "an additional index created by the contraction of two general indices is taken to be summed over its space; "
    "Indices().get_generic_indices(space=n) is modelled as n new registered indices of that space",
    "evaluate_deltas is not decided here: in R01d it is uninterpreted, in R01e it is replaced by a reference model of "
    "its contract (killable index substituted when contracted, preferred one when both hold equal information, a "
    "delta of two contracted indices that occur nowhere else kept); Rules.apply is uninterpreted inside wicks and "
    "decided by its own table; inside the R01d scenarios a string with an odd number of operators is taken to have "
    "no complete contraction (decided for the code by R01c/R01e)",
    "in the delta-evaluation family of R01e every operator carries its own index (with an index on two operators the "
    "Einstein reading of the input is ambiguous)",
    "not required any more: that _contract_operator_string *consults* the prefilter (an optimisation without "
    "influence on the value: R01c decides its soundness, R01e the composed result) and the source-level shape of "
    "the commuting/non-commuting partition loop (decided through the evaluated product instead)",
]

FUNC = "func"
KINDS = ("F", "Fd")
SPACES = ("occ", "virt", "general")
TRANSPARENT_MCALLS = ("expand",)


# ---------------------------------------------------------------------------
# abstract values


class _Op(Obj):
    """Operator token: two tokens are equal iff their labels are (sympy operators compare by value)."""

    def __eq__(self, o):
        return isinstance(o, _Op) and o.attrs["label"] == self.attrs["label"]

    def __ne__(self, o):
        return not self.__eq__(o)

    def __hash__(self):
        return hash(self.attrs["label"])


class _Idx(Obj):
    """Index record; as a term it carries name and space (idx(name, space))."""

    @property
    def term(self):
        return T("idx", self.attrs["name"], self.attrs["space"])


class _Tens(Obj):
    """Commuting tensor with indices; as a term tens(name, (indices))."""

    @property
    def term(self):
        return T("tens", self.attrs["name"], tuple(_term(i) for i in self.attrs["idx"]))


def _index(name, space, spin=""):
    o = _Idx(None, name, space=space, spin=spin)
    o.attrs["name"] = name
    return o


def _indexed_tensor(name, idx):
    o = _Tens(None, name, _classes=("NonSymmetricTensor", "SymbolicTensor", "Expr", "Basic"), is_commutative=True,
              is_number=False, idx=tuple(idx), args=())
    o.attrs["name"] = name
    return o


def _operator(kind, idx, pos=None, label=None):
    alias = {"F": ("AnnihilateFermion", "Annihilator"), "Fd": ("CreateFermion", "Creator")}
    classes = (kind,) + alias[kind] + ("FermionicOperator", "SqOperator", "Expr", "Basic") if kind in KINDS else (kind,)
    return _Op(None, f"{kind}[{idx.attrs['name']}]" + ("" if pos is None else f"@{pos}"), _classes=classes, args=[idx],
               state=idx, label=label if label is not None else (kind, idx.attrs["name"]), pos=pos, is_commutative=False,
               is_number=False, func=sym(kind))


def _op_power(op, n):
    """sympy's representation of n adjacent identical operators: Pow(op, n) (not commutative)."""
    return Obj(None, f"{op.name}**{n}", _classes=("Pow", "Expr", "Basic"), base=op, exp=n, args=(op, n), is_commutative=False,
               is_number=False, _power_of=op)


def _tensor(name):
    return Obj(None, name, _classes=("AntiSymmetricTensor", "Expr", "Basic"), is_commutative=True, is_number=False,
               args=[])


def _term(x):
    return x.term if isinstance(x, Obj) else x


def _S():
    return Obj(None, "S", Zero=0, One=1, NegativeOne=-1, Half=Fraction(1, 2))


RANK = {"occ": 1, "virt": 1, "general": 0}


def _space_of(x):
    if isinstance(x, T) and x.op == "idx":
        return x.args[1]
    if isinstance(x, T) and x.op == "fresh":
        return x.args[1]
    return None


def _delta(a, b):
    """KroneckerDelta(a, b) as sympy/adcgen evaluate it on construction: 1 for identical indices, 0 for an occupied and
    a virtual index, otherwise the (symmetric) delta object."""
    a, b = _term(a), _term(b)
    if a == b:
        return 1
    sa, sb = _space_of(a), _space_of(b)
    if {sa, sb} == {"occ", "virt"}:
        return 0
    return T("delta", *sorted((a, b), key=repr))


def _index_atoms(x):
    """Indices (idx / fresh terms) occurring in a value: ``x.atoms(Index)``."""
    if isinstance(x, _Op):
        return {_term(i) for i in x.attrs["args"]}
    if isinstance(x, Obj):
        if "idx" in x.attrs:
            return {_term(i) for i in x.attrs["idx"]}
        if "base" in x.attrs:
            return _index_atoms(x.attrs["base"])
        return set()
    return {t for t in subterms(x) if t.op in ("idx", "fresh")}


def _make_args(kind, x):
    cls = {"mul": "Mul", "add": "Add"}[kind]
    if isinstance(x, Obj):
        return list(x.attrs["args"]) if cls in x.attrs.get("_classes", ()) else [x]
    if isinstance(x, T) and x.op == kind:
        return list(x.args)
    return [x]


def _subs(t, old, new):
    """``t.subs(old, new)`` for index terms; deltas are re-evaluated."""
    def f(x):
        if x == old:
            return new
        if x.op == "delta":
            return _delta(x.args[0], x.args[1])
        return x
    from ..terms import rebuild
    return rebuild(t, f)


def _ref_evaluate_deltas(expr, target_idx):
    """Reference model of func.evaluate_deltas (its documented contract, written independently): in every product the
    indices that are not target indices (given, else Einstein convention: indices on a single object) are contracted;
    a delta with a contracted index is used to substitute that index - the killable one (less or equal information:
    general < occ/virt), else the preferred one if both hold the same information; a delta whose indices are both
    contracted and occur nowhere else stays."""
    expr = strip(_term(expr), mcalls=TRANSPARENT_MCALLS)
    out = []
    for c, fs in expand_products(expr):
        out.append(t_mul(c, _ref_deltas_product(t_mul(*fs) if fs else 1, target_idx)))
    return t_add(*out) if out else 0


def _objects(t):
    return [f for f in (t.args if isinstance(t, T) and t.op == "mul" else [t]) if not is_num(f)]


def _ref_deltas_product(t, target_idx):
    for _ in range(64):
        if not isinstance(t, T):
            return t
        objs = _objects(t)
        if target_idx is None:
            count = {}
            for o in objs:
                for s in _index_atoms(o):
                    count[s] = count.get(s, 0) + 1
            targets = {s for s, k in count.items() if k == 1}
        else:
            targets = set(target_idx)
        for d in objs:
            if d.op != "delta":
                continue
            a, b = d.args
            ra, rb = RANK.get(_space_of(a), 0), RANK.get(_space_of(b), 0)
            pref, kill = (a, b) if ra >= rb else (b, a)
            others = set()
            for o in objs:
                if o is not d:
                    others |= _index_atoms(o)
            if kill not in targets:
                if pref not in targets and pref not in others and kill not in others:
                    continue
                t = _subs(t, kill, pref)
                break
            if pref not in targets and ra == rb:
                t = _subs(t, pref, kill)
                break
        else:
            return t
    raise AnalysisError("C01: reference delta evaluation does not terminate")


def _hooks(**extra):
    """Model of the sympy / adcgen primitives the Wick code builds its results from."""
    def index(sx, a, kw):
        flags = sorted(k for k, v in kw.items() if v)
        space = {(): "general", ("above_fermi",): "virt", ("below_fermi",): "occ"}.get(tuple(flags), "?" + ",".join(flags))
        sx.fresh_n += 1
        name = a[0] if a else kw.get("name")
        return T("fresh", sx.fresh_n, space, ("Index", name if isinstance(name, str) else "<computed>"))

    def registry(sx, a, kw):
        return Obj(None, "index_registry", _registry=True)

    def generic_indices(sx, a, kw):
        # Indices().get_generic_indices(occ=2, virt_a=1, ...): registered indices with names that are not in use
        if not (a and isinstance(a[0], Obj) and a[0].attrs.get("_registry")) or len(a) > 1:
            return NotImplemented
        out = {}
        for key, n in kw.items():
            if not isinstance(n, int):
                return NotImplemented
            if n == 0:
                continue
            space, _, spin = key.partition("_")
            lst = []
            for _k in range(n):
                sx.fresh_n += 1
                lst.append(T("fresh", sx.fresh_n, space if not spin else f"?{key}", ("registry", "generic")))
            out[(space, spin)] = lst
        return out

    def delta(sx, a, kw):
        if len(a) != 2 or kw:
            return NotImplemented
        return _delta(a[0], a[1])

    def add(sx, a, kw):
        return t_add(*[_term(x) for x in a])

    def mul(sx, a, kw):
        return t_mul(*[_term(x) for x in a])

    def type_(sx, a, kw):
        # the exact class of an abstract sympy object is the first entry of its class list
        if len(a) == 1 and isinstance(a[0], Obj) and a[0].attrs.get("_classes"):
            return sym(a[0].attrs["_classes"][0])
        return NotImplemented

    def atoms(sx, a, kw):
        if len(a) == 2 and (isinstance(a[0], (Obj, T)) or is_num(a[0])):
            return set() if is_num(a[0]) else _index_atoms(a[0])
        return NotImplemented

    def has(sx, a, kw):
        if len(a) == 2 and (isinstance(a[0], (Obj, T)) or is_num(a[0])):
            return False if is_num(a[0]) else _term(a[1]) in _index_atoms(a[0])
        return NotImplemented

    h = {"S": _S(), "Index": index, "KroneckerDelta": delta, "Add": add, "Mul": mul, "type": type_, "atoms": atoms,
         "has": has, "Indices": registry, "get_generic_indices": generic_indices,
         "Mul.make_args": lambda sx, a, kw: _make_args("mul", a[0]) if len(a) == 1 else NotImplemented,
         "Add.make_args": lambda sx, a, kw: _make_args("add", a[0]) if len(a) == 1 else NotImplemented}
    h.update(extra)
    return h


CLASS_ALIAS = {"AnnihilateFermion": "F", "CreateFermion": "Fd"}
CLASS_NAMES = {"F", "Fd", "NO", "FermionicOperator", "Mul", "Add", "Pow", "Symbol", "KroneckerDelta", "AntiSymmetricTensor",
               "SymmetricTensor", "NonSymmetricTensor", "Amplitude", "SymbolicTensor", "Rational", "Integer", "Number"} | \
    set(CLASS_ALIAS)


def _is_index_term(t):
    return isinstance(t, T) and t.op in ("idx", "fresh")


def _index_identity(atom):
    """Two index terms are the same index iff they are the same term."""
    if atom.op == "cmp" and atom.args[0] in ("is", "==", "is not", "!="):
        a, b = atom.args[1], atom.args[2]
        if all(isinstance(x, T) and x.op in ("idx", "fresh") for x in (a, b)):
            return (a == b) if atom.args[0] in ("is", "==") else (a != b)
    if atom.op == "cmp" and atom.args[0] in ("in", "not in") and _is_index_term(atom.args[1]) \
            and isinstance(atom.args[2], (frozenset, tuple, list)) and all(_is_index_term(x) for x in atom.args[2]):
        r = atom.args[1] in atom.args[2]
        return r if atom.args[0] == "in" else not r
    return None


def _class_identity(atom):
    """``type(x) is C`` / ``type(x) == type(y)`` over class names (sympy's F/Fd are aliases of Annihilate/CreateFermion)."""
    if atom.op == "cmp" and atom.args[0] in ("is", "==", "is not", "!="):
        a, b = atom.args[1], atom.args[2]
        if all(isinstance(x, T) and x.op == "sym" and x.args[0] in CLASS_NAMES for x in (a, b)):
            same = CLASS_ALIAS.get(a.args[0], a.args[0]) == CLASS_ALIAS.get(b.args[0], b.args[0])
            return same if atom.args[0] in ("is", "==") else not same
    return None


def _inline_except(*vocab):
    return lambda q: q not in vocab


def _assume_not_none(*names):
    """An abstract record is not None (the evaluator would otherwise fork on ``x is None``)."""
    def start(sx):
        for n in names:
            sx.assume(T("cmp", "is", *sorted((sym(n), None), key=repr)), False)
    return start


def _returns(outs, what):
    """Values of all paths; a scenario on concrete abstract values normally has exactly one."""
    if not outs:
        raise AnalysisError(f"C01: no path through {what}")
    return outs


# ---------------------------------------------------------------------------
# the independent oracle: expectation value in a small Fock space


def _orbitals(n):
    return {"occ": list(range(n)), "virt": list(range(n, 2 * n)), "general": list(range(2 * n))}


def _vev(ops, nocc):
    """<Phi| o_1 o_2 ... o_n |Phi> for ops = [(kind, orbital), ...] (left to right), Phi = orbitals < nocc occupied;
    F annihilates, Fd creates; computed by applying the operators to the determinant (no Wick theorem involved)."""
    occ = set(range(nocc))
    sign = 1
    for kind, o in reversed(ops):
        below = sum(1 for x in occ if x < o)
        if kind == "F":
            if o not in occ:
                return 0
            occ.remove(o)
        else:
            if o in occ:
                return 0
            occ.add(o)
        if below % 2:
            sign = -sign
    return sign if occ == set(range(nocc)) else 0


class _Uneval(Exception):
    pass


def _prepare(v, orbs, free=None):
    """Products of an evaluated, operator-free result with the indices each of them sums over: the fresh indices and,
    when ``free`` (names of the target indices) is given, every operator index that is not free."""
    v = strip(_term(v), mcalls=TRANSPARENT_MCALLS)
    out = []
    for c, fs in expand_products(v):
        summed = {x for f in fs for x in subterms(f) if x.op == "fresh" or
                  (x.op == "idx" and free is not None and x.args[0] not in free)}
        summed = sorted(summed, key=repr)
        for x in summed:
            if x.args[1] not in orbs:
                raise _Uneval(f"index with the assumptions {x.args[1]}")
        out.append((Fraction(c), fs, summed))
    return out


def _value(prods, asg, orbs):
    """Number the result stands for: ``asg`` maps the names of free indices to orbitals and tensor symbols to numbers;
    every other index is summed over the orbitals of its space within the product it occurs in."""
    total = Fraction(0)
    for c, fs, summed in prods:
        for combo in itertools.product(*[orbs[x.args[1]] for x in summed]):
            loc = dict(zip(summed, combo))
            p = c
            for f in fs:
                p *= _factor(f, asg, loc)
                if p == 0:
                    break
            total += p
    return total


def _tensor_value(name, orbitals):
    """Deterministic integer 'tensor element' (no symmetry, no zeros)."""
    v = sum(ord(ch) for ch in name)
    for k, o in enumerate(orbitals):
        v = v * 7 + (k + 2) * (o + 1)
    return 1 + v % 13


def _factor(f, asg, loc):
    if is_num(f):
        return Fraction(f)
    if isinstance(f, T):
        if f.op == "delta":
            return Fraction(1 if _orb(f.args[0], asg, loc) == _orb(f.args[1], asg, loc) else 0)
        if f.op == "tens":
            return Fraction(_tensor_value(f.args[0], [_orb(x, asg, loc) for x in f.args[1]]))
        if f.op == "sym" and f.args[0] in asg:
            return Fraction(asg[f.args[0]])
        if f.op == "pow" and isinstance(f.args[1], int) and f.args[1] >= 0:
            return _factor(f.args[0], asg, loc) ** f.args[1]
        if f.op in ("mul", "add"):
            sub = [(c, [_factor(x, asg, loc) for x in fs]) for c, fs in expand_products(f)]
            tot = Fraction(0)
            for c, xs in sub:
                p = Fraction(c)
                for x in xs:
                    p *= x
                tot += p
            return tot
    raise _Uneval(f"factor `{show(f)[:120]}` is not a number, a Kronecker delta of operator indices or a known tensor")


def _orb(x, asg, loc):
    if isinstance(x, T) and x in loc:
        return loc[x]
    if isinstance(x, T) and x.op == "idx" and x.args[0] in asg:
        return asg[x.args[0]]
    raise _Uneval(f"`{show(x)[:80]}` is neither an operator index nor a fresh index")


def _compare_numeric(value, ops, norb, factor=1, tensors=None, tensor=None):
    """First orbital assignment on which the evaluated result differs from the expectation value (None if equal).
    ``ops`` = [(kind, index name, space)]; equal index names share the orbital. ``tensor`` = (name, index names): a
    commuting factor tensor_{names} in front of the string; its indices are contracted (summed), the other operator
    indices are the target indices."""
    orbs = _orbitals(norb)
    names = []
    for _, nm, sp in ops:
        if (nm, sp) not in names:
            names.append((nm, sp))
    contracted = [x for x in names if tensor is not None and x[0] in tensor[1]]
    free = [x for x in names if x not in contracted]
    try:
        prods = _prepare(value, orbs, None if tensor is None else {nm for nm, _ in free})
    except _Uneval as e:
        return f"result cannot be evaluated: {e}"
    for combo in itertools.product(*[orbs[sp] for _, sp in free]):
        asg = {nm: o for (nm, _), o in zip(free, combo)}
        want = 0
        for inner in itertools.product(*[orbs[sp] for _, sp in contracted]):
            a2 = dict(asg)
            a2.update({nm: o for (nm, _), o in zip(contracted, inner)})
            tv = 1 if tensor is None else _tensor_value(tensor[0], [a2[nm] for nm in tensor[1]])
            want += factor * tv * _vev([(k, a2[nm]) for k, nm, _ in ops], norb)
        full = dict(asg)
        full.update(tensors or {})
        try:
            got = _value(prods, full, orbs)
        except _Uneval as e:
            return f"result cannot be evaluated: {e}"
        if got != want:
            return (f"target orbitals {asg} (occupied: 0..{norb - 1}, virtual: {norb}..{2 * norb - 1}): result has the value "
                    f"{got}, the expectation value{' summed over the contracted indices' if contracted else ''} is {want}")
    return None


# ---------------------------------------------------------------------------
# R01a


def r01a(ctx):
    rule = "R01a"
    fn = ctx.model.fn(f"{FUNC}:_contraction")
    n = 0
    for kp, kq, sp, sq in itertools.product(KINDS, KINDS, SPACES, SPACES):
        for shared in ((False, True) if sp == sq else (False,)):
            def mk():
                i = _index("p", sp)
                j = i if shared else _index("q", sq)
                return _operator(kp, i), _operator(kq, j)
            outs = _contraction_outs(ctx, mk)
            label = f"({kp}_{sp}, {kq}_{sq})" + (" same index" if shared else "")
            ops = [(kp, "p", sp), (kq, "p" if shared else "q", sq)]
            why = None
            for o in outs:
                if o.kind != "return":
                    why = f"raises {o.exc}"
                    break
                why = _compare_numeric(o.value, ops, 2)
                if why:
                    why = f"returns {show(_term(o.value))[:160]}; {why}"
                    break
            n += 1
            ctx.check(rule, fn, why is None, f"{label}: value equals <Phi|p q|Phi> for every orbital assignment",
                      f"contraction table row {label}: {why}", key=f"row {label}")
            # provenance of an additional index: from the index registry (unique printed name) - a new Index object with
            # a fixed name is printed like the registry index (and like every other such object) of that name
            fresh = sorted({x for o in outs if o.kind == "return" for x in subterms(_term(o.value)) if x.op == "fresh"}, key=repr)
            if fresh:
                fixed = [x.args[2][1] for x in fresh if x.args[2][0] == "Index" and x.args[2][1] != "<computed>"]
                ctx.check(rule, fn, not fixed, f"{label}: the additional index is a registered generic index",
                          f"contraction table row {label}: the additional index is created as Index({fixed[0] if fixed else ''!r}, ...) "
                          "outside the index registry with a fixed name: it cannot be told from the registry index (or any other "
                          "such object) of that name in the printed result", key=f"fresh index {label}")
            # canonical zero: the recursion prunes on it and an un-evaluated delta_{occ,virt} would survive when the
            # delta evaluation is not requested
            orbs = _orbitals(2)
            vanishes = all(_vev([(kp, a), (kq, a if shared else b)], 2) == 0 for a in orbs[sp] for b in orbs[sq])
            if vanishes and why is None:
                vals = [_term(o.value) for o in outs]
                ctx.check(rule, fn, all(is_num(v) and v == 0 for v in vals), f"{label}: identically vanishing row returns zero",
                          f"contraction table row {label}: the expectation value vanishes for every orbital assignment, but the "
                          f"code returns the expression {show(vals[0])[:160]} instead of zero", key=f"zero {label}")
    # call history: every contraction of two general indices draws its own additional index - also when the same pair
    # of operators (the same objects, or equal ones) is contracted again: a result that is memoised around the index
    # request would make independent contractions share their summation index (sum_i f_ii d_ii for (sum_i f_ii)(sum_j d_jj))
    for kp, kq in (("F", "Fd"), ("Fd", "F")):
        for shared in (False, True):
            def mk_seq():
                i = _index("p", "general")
                j = i if shared else _index("q", "general")
                p1, q1 = _operator(kp, i), _operator(kq, j)
                return [dict(p=p1, q=q1), dict(p=p1, q=q1), dict(p=_operator(kp, i), q=_operator(kq, j))]
            sx = Symex(ctx.model, inline=_inline_except(), hooks=_hooks(), what="_contraction (call history)")
            sx.oracle = _Generic(lambda t: t.op == "delta")
            sx.concrete_key = _is_index_term
            outs = _returns(sx.run_sequence([fn, fn, fn], mk_seq), "_contraction")
            label = f"({kp}_general, {kq}_general)" + (" same index" if shared else "")
            why = None
            for o in outs:
                if o.kind != "return" or any(k != "return" for k, _ in o.value):
                    why = f"a repeated call does not return: {o}"
                    break
                drawn = [{x for x in subterms(_term(v)) if x.op == "fresh"} for _, v in o.value]
                if any(not d for d in drawn):
                    continue        # (row without additional index: decided by the value clause above)
                for a, b in itertools.combinations(range(len(drawn)), 2):
                    both = drawn[a] & drawn[b]
                    if both:
                        why = (f"call {a + 1} and call {b + 1} on {'the same' if (a, b) == (0, 1) else 'equal'} operators return the "
                               f"same additional index {show(sorted(both, key=repr)[0])}: the result is reused (memoised) "
                               "around the index request instead of drawing a new index per contraction")
                        break
                if why:
                    break
            ctx.check(rule, fn, why is None, f"{label}: repeated contraction draws a new additional index every time",
                      f"contraction table row {label}: {why}", key=f"fresh per call {label}")
    # spin-labelled operators must be refused, non-operators too
    for which in ("p", "q"):
        def mk():
            return (_operator("F", _index("p", "virt", "a" if which == "p" else "")),
                    _operator("Fd", _index("q", "virt", "a" if which == "q" else "")))
        outs = _contraction_outs(ctx, mk)
        ctx.check(rule, fn, all(o.kind == "raise" and o.exc == "NotImplementedError" for o in outs),
                  f"spin on {which} refused", f"operator with spin on {which} is not refused ({outs[0]})", key=f"spin {which}")
    for which in ("p", "q"):
        def mk():
            return (_operator("F" if which == "q" else "Other", _index("p", "virt")),
                    _operator("Fd" if which == "p" else "Other", _index("q", "virt")))
        outs = _contraction_outs(ctx, mk)
        ctx.check(rule, fn, all(o.kind == "raise" for o in outs), f"non-operator {which} refused",
                  f"non fermionic operator {which} accepted", key=f"nonop {which}")
    ctx.floor(rule, "rows of the contraction table", n, 36)


def _contraction_outs(ctx, mk):
    sx = Symex(ctx.model, inline=_inline_except(), hooks=_hooks(), what="_contraction")
    sx.oracle = _Generic(lambda t: t.op == "delta")

    def args():
        p, q = mk()
        return dict(p=p, q=q)
    return _returns(sx.run(f"{FUNC}:_contraction", args), "_contraction")


# ---------------------------------------------------------------------------
# R01b


def _pairings(items):
    if not items:
        yield ()
        return
    a = items[0]
    for k in range(1, len(items)):
        rest = items[1:k] + items[k + 1:]
        for p in _pairings(rest):
            yield ((a, items[k]),) + p


def _crossings(pairs):
    c = 0
    for (a, b), (x, y) in itertools.combinations(pairs, 2):
        if a < x < b < y or x < a < y < b:
            c += 1
    return c


def _pair_products(ctx, labels, zero_pairs=frozenset()):
    """_contract_operator_string on tokens with the contraction symbolic: list of (coefficient, sorted pairs)."""
    n = len(labels)
    csym = {(i, j): sym(f"c{i}_{j}") for i in range(n) for j in range(n) if i != j}
    back = {v: k for k, v in csym.items()}

    def contraction(sx, a, kw):
        b = sx.bind(fn_c, a, kw)
        x, y = b["p"], b["q"]
        pr = (x.attrs["pos"], y.attrs["pos"])
        if tuple(sorted(pr)) in zero_pairs:
            return 0
        return csym[pr]

    fn_c = ctx.model.fn(f"{FUNC}:_contraction")
    sx = Symex(ctx.model, inline=_inline_except(), what="_contract_operator_string", max_paths=64,
               hooks=_hooks(_contraction=contraction, _has_fully_contracted_contribution=lambda sx, a, kw: True))
    sx.oracle = _Generic(lambda t: t in back)
    outs = sx.run(f"{FUNC}:_contract_operator_string",
                  lambda: dict(op_string=[_operator("F", _index(f"x{k}", "general"), pos=k, label=lab)
                                          for k, lab in enumerate(labels)]))
    if len(outs) != 1 or outs[0].kind != "return":
        raise AnalysisError(f"R01b: evaluation of _contract_operator_string on {n} tokens gives {outs[:3]}")
    prods = []
    for c, fs in expand_products(strip(_term(outs[0].value), mcalls=TRANSPARENT_MCALLS)):
        if any(f not in back for f in fs):
            raise AnalysisError(f"R01b: unexpected factor in the result: {[show(f) for f in fs if f not in back][:2]}")
        prods.append((c, tuple(sorted(back[f] for f in fs))))
    return prods


def _primes(n):
    out, k = [], 2
    while len(out) < n:
        if all(k % p for p in out):
            out.append(k)
        k += 1
    return out


class _Generic:
    """Oracle for branch atoms: the terms selected by ``is_value`` stand for generic non-zero numbers (distinct
    primes), as sympy expressions built from symbols/deltas do; an atom over them is decided by evaluation, whatever
    its spelling (``c is S.Zero``, ``c == 0``, ``not c``, ``-c == 0``, ``c.is_zero``); other atoms are left alone."""

    def __init__(self, is_value):
        self.is_value = is_value
        self.values = {}

    def number(self, t):
        if is_num(t):
            return Fraction(t)
        if isinstance(t, T):
            if t.op == "mul":
                r = Fraction(1)
                for x in t.args:
                    r *= self.number(x)
                return r
            if t.op == "add":
                return sum((self.number(x) for x in t.args), Fraction(0))
            if t.op == "pow" and isinstance(t.args[1], int):
                return self.number(t.args[0]) ** t.args[1]
            if self.is_value(t):
                if t not in self.values:
                    self.values[t] = _primes(len(self.values) + 1)[-1]
                return Fraction(self.values[t])
        raise _Uneval(show(t))

    def __call__(self, sx, atom):
        for decide in (_class_identity, _index_identity):
            r = decide(atom)
            if r is not None:
                return r
        try:
            if atom.op == "cmp" and atom.args[0] in ("==", "!=", "<", "<=", "is", "is not"):
                a, b = self.number(atom.args[1]), self.number(atom.args[2])
                return {"==": a == b, "is": a == b, "!=": a != b, "is not": a != b, "<": a < b, "<=": a <= b}[atom.args[0]]
            if atom.op == "attr" and atom.args[1] in ("is_zero", "is_nonzero"):
                z = self.number(atom.args[0]) == 0
                return z if atom.args[1] == "is_zero" else not z
            return self.number(atom) != 0
        except _Uneval:
            return None


def _pairing_verdict(got, want):
    if got == want:
        return ""
    gd, wd = dict(got), dict(want)
    if len(got) != len(set(p for p, _ in got)):
        return "a complete pairing is produced more than once"
    if set(gd) != set(wd):
        miss = sorted(set(wd) - set(gd))[:2]
        extra = sorted(set(gd) - set(wd))[:2]
        return f"pairings missing {miss} / spurious {extra}"
    bad = [p for p in wd if gd[p] != wd[p]][:2]
    return f"wrong sign for pairing(s) {bad} (sign must be (-1)^crossings)"


def r01b(ctx):
    rule = "R01b"
    fn = ctx.model.fn(f"{FUNC}:_contract_operator_string")
    sizes = [2, 4, 6] if ctx.tier == "quick" else [2, 4, 6, 8]

    def want_for(n, zero=frozenset()):
        return sorted((tuple(sorted(p)), (-1) ** _crossings(p)) for p in _pairings(list(range(n)))
                      if not any(pr in zero for pr in p))

    for n in sizes:
        got = sorted((p, s) for s, p in _pair_products(ctx, list(range(n))))
        want = want_for(n)
        ctx.check(rule, fn, got == want, f"n={n}: {len(want)} complete pairings, each once, sign (-1)^crossings",
                  f"n={n}: {_pairing_verdict(got, want)}", key=f"pairings n={n}")
    # the same operator may occur several times in a string (equal objects at different positions):
    # the bookkeeping must go by position, not by value
    for labels in (["A", "B", "A", "B"], ["A", "A", "B", "B", "A", "B"]):
        n = len(labels)
        got = sorted((p, s) for s, p in _pair_products(ctx, labels))
        want = want_for(n)
        ctx.check(rule, fn, got == want, f"repeated operators {labels}: pairings by position",
                  f"operator string with repeated (equal) operators {labels}: {_pairing_verdict(got, want)}; complete pairings "
                  f"are {[p for p, _ in got][:4]}..., expected every pairing of positions once", key=f"repeated {''.join(labels)}")
    # a vanishing contraction must remove exactly the pairings containing it
    for n, zero in ((4, frozenset({(0, 2)})), (6, frozenset({(0, 3), (1, 2)}))):
        got = sorted((p, s) for s, p in _pair_products(ctx, list(range(n)), zero))
        want = want_for(n, zero)
        ctx.check(rule, fn, got == want, f"n={n}: zero contraction(s) {sorted(zero)} remove exactly their pairings",
                  f"with contraction{sorted(zero)}=0 the result has the pairings {got}, expected {want}",
                  key="zero skip" if n == 4 else f"zero skip n={n}")


# ---------------------------------------------------------------------------
# R01c


def _contractible(a, b):
    """Non-vanishing contraction of the operator a = (kind, space) with an operator b to its right (the table that
    R01a establishes numerically): particle F..Fd without an occupied index, hole Fd..F without a virtual one."""
    (ka, sa), (kb, sb) = a, b
    if (ka, kb) == ("F", "Fd"):
        return "occ" not in (sa, sb)
    if (ka, kb) == ("Fd", "F"):
        return "virt" not in (sa, sb)
    return False


def _has_pairing(seq, _memo=None):
    """Whether the ordered operator string has a complete pairing all of whose contractions are non-zero (with one
    index per operator the pairings give linearly independent delta products, so this is exactly: the expectation
    value does not vanish identically)."""
    memo = {} if _memo is None else _memo
    seq = tuple(seq)
    if not seq:
        return True
    if len(seq) % 2:
        return False
    if seq in memo:
        return memo[seq]
    r = any(_contractible(seq[0], seq[k]) and _has_pairing(seq[1:k] + seq[k + 1:], memo) for k in range(1, len(seq)))
    memo[seq] = r
    return r


def _class_attr(ctx, mod, cls, attr):
    """Value of a class attribute as the evaluator sees it."""
    sx = Symex(ctx.model, what=f"{cls}.{attr}")
    sx.prefix, sx.decisions, sx.facts, sx.path, sx.effects = [], [], {}, [], []
    sx.steps, sx.depth, sx.frames, sx.module = 0, 0, [{}], ctx.model.module(mod)
    return sx.getattr(ClassRef(ctx.model.module(mod), cls), attr, None)


def r01c(ctx):
    rule = "R01c"
    fn = ctx.model.fn(f"{FUNC}:_has_fully_contracted_contribution")
    base = _class_attr(ctx, "indices", "Indices", "base")
    ctx.check(rule, ctx.model.cls("indices:Indices"), isinstance(base, dict) and set(base) == set(SPACES),
              "Indices.base has the three spaces", f"Indices.base is {show(base)[:120]}", key="base keys")
    sx = Symex(ctx.model, inline=_inline_except(), hooks=_hooks(), what="_has_fully_contracted_contribution")
    sx.oracle = _Generic(lambda t: False)
    dom = list(itertools.product(KINDS, SPACES))
    strings = []
    # every string of up to four operators, six operators in fixed creator/annihilator patterns over all spaces
    for size in range(5):
        strings += [(f"n={size}", list(st)) for st in itertools.product(dom, repeat=size)]
    patterns = ["F Fd F Fd F Fd", "Fd F Fd F Fd F", "F F Fd Fd F Fd"]
    if ctx.tier != "quick":
        patterns += ["F F F Fd Fd Fd", "Fd Fd F F F Fd", "Fd Fd Fd F F F"]
    for pat in patterns:
        strings += [(f"pattern {pat}", list(zip(pat.split(), sp))) for sp in itertools.product(SPACES, repeat=6)]
    # long strings (up to twelve operators): all counter vectors in {0,1,2}^6 in several arrangements
    orders = ["alternating", "interleaved"] if ctx.tier == "quick" else ["creators first", "reversed", "interleaved", "alternating"]
    for counts in itertools.product(range(3), repeat=6):
        creators = [("Fd", s) for s, c in zip(SPACES, counts[:3]) for _ in range(c)]
        annihilators = [("F", s) for s, c in zip(SPACES, counts[3:]) for _ in range(c)]
        seq = creators + annihilators
        for order in orders:
            if order == "reversed":
                seq2 = seq[::-1]
            elif order == "interleaved":
                seq2 = seq[::2] + seq[1::2]
            elif order == "alternating":
                seq2 = [x for pair in itertools.zip_longest(annihilators, creators) for x in pair if x is not None]
            else:
                seq2 = seq
            strings.append((f"counts {counts} {order}", seq2))
    bad = 0
    n = 0
    live = 0
    memo = {}
    seen = set()
    for label, seq2 in strings:
        if tuple(seq2) in seen:
            continue
        seen.add(tuple(seq2))
        outs = sx.run(fn, lambda: dict(op_string=[_operator(k, _index(f"x{i}", s), pos=i) for i, (k, s) in enumerate(seq2)]))
        n += 1
        if len(outs) != 1 or outs[0].kind != "return" or isinstance(outs[0].value, T):
            raise AnalysisError(f"R01c: prefilter on {label} gives {outs[:2]}")
        val = bool(outs[0].value)
        possible = _has_pairing(seq2, memo)
        live += possible
        if not val and possible:
            bad += 1
            if bad <= 3:
                ctx.bad(rule, fn, f"prefilter answers False for the string <{' '.join(k + '_' + s for k, s in seq2)}> although "
                        "it has a complete pairing of non-vanishing contractions", key=f"string {label}")
        else:
            ctx.ok(rule, fn, f"{label}: answer {val} sound", key=label.split(" (")[0] if label.startswith(("n=", "pattern")) else "counts")
    ctx.floor(rule, "strings with a non-vanishing complete pairing among those given to the prefilter", live, 700)
    ctx.floor(rule, "operator strings given to the prefilter", n, 4000)


# ---------------------------------------------------------------------------
# R01d: Rules.apply and Rules.is_empty


def _rules_self(fb):
    return Obj("rules:Rules", "self", _forbidden_blocks=fb)


def _expr_obj(terms, assumptions):
    return Obj("expr_container:Expr", "expr", terms=terms, assumptions=dict(assumptions),
               _classes=("Expr", "Container"))


TENSOR_CLASSES = {
    "antisymtensor": ("AntiSymmetricTensor", "SymbolicTensor", "Expr", "Basic"),
    "symtensor": ("SymmetricTensor", "AntiSymmetricTensor", "SymbolicTensor", "Expr", "Basic"),
    "amplitude": ("Amplitude", "AntiSymmetricTensor", "SymbolicTensor", "Expr", "Basic"),
    "nonsymtensor": ("NonSymmetricTensor", "SymbolicTensor", "Expr", "Basic"),
}
OTHER_CLASSES = {
    "delta": ("KroneckerDelta", "Function", "Expr", "Basic"),
    "symbol": ("Symbol", "AtomicExpr", "Expr", "Basic"),
    "prefactor": ("Rational", "Number", "AtomicExpr", "Expr", "Basic"),
}
SPACE_OF = {"o": "occ", "v": "virt", "g": "general"}


def _sympy_obj(kind, name, block, tag):
    """Abstract sympy object behind one object of a term: a tensor of one of the four tensor classes (optionally
    squared), a Kronecker delta, a plain symbol or a number."""
    idx = tuple(_index(f"{tag}.i{k}", SPACE_OF[c]) for k, c in enumerate(block))
    if kind.endswith("^2"):
        base = _sympy_obj(kind[:-2], name, block, tag + ".base")
        return Obj(None, tag + ".sympy", _classes=("Pow", "Expr", "Basic"), args=(base, 2), is_number=False,
                   is_commutative=True)
    if kind in TENSOR_CLASSES:
        o = Obj(None, tag + ".sympy", _classes=TENSOR_CLASSES[kind], idx=idx, is_number=False, is_commutative=True,
                args=())
    elif kind == "delta":
        o = Obj(None, tag + ".sympy", _classes=OTHER_CLASSES[kind], idx=idx, args=idx, is_number=False, is_commutative=True)
    elif kind == "symbol":
        o = Obj(None, tag + ".sympy", _classes=OTHER_CLASSES[kind], args=(), is_number=False, is_commutative=True)
    else:
        o = Obj(None, tag + ".sympy", _classes=OTHER_CLASSES["prefactor"], args=(), is_number=True, is_commutative=True)
    if name is not None:
        o.attrs["name"] = name
    o.attrs["_closed"] = True
    return o


def _closed_objects(sx, obj, attr, node):
    """Abstract sympy objects carry all the attributes they have: anything else is an AttributeError."""
    if isinstance(obj, Obj) and obj.attrs.get("_closed"):
        raise SxRaised("AttributeError", None, node)
    return NotImplemented


def _tensor_obj(spec, tag):
    """One object of a term as the container class expr_container.Obj around an abstract sympy object; name, space,
    type_as_str, ... are evaluated from the library's own properties."""
    kind, name, block = spec
    return Obj("expr_container:Obj", tag, sympy=_sympy_obj(kind, name, block, tag))


def _is_tensor(spec):
    return spec[0].split("^")[0] in TENSOR_CLASSES


def r01d_apply(ctx):
    rule = "R01d"
    fn = ctx.model.fn("rules:Rules.apply")
    sx = Symex(ctx.model, inline=_inline_except(), hooks=_hooks(), what="Rules.apply", max_steps=20000000,
               attr_hook=_closed_objects)
    sx.on_start = _assume_not_none("expr", "self")
    sx.oracle = _Generic(lambda t: False)
    blocks = ("oo", "ov", "vo", "vv")
    names = ("f", "d", "x")
    kinds = tuple(TENSOR_CLASSES)
    rule_sets = [{"f": ["ov", "vo"], "d": ["oo"]}, {"d": ["vv", "ov"], "x": ["ov"], "f": []}, {"f": ["oo"]},
                 {"V": ["oovv", "ovov"], "x": ["vv"]}]
    # every tensor class x name x block on its own
    singles = [(k, a, b) for k in kinds for a in names for b in blocks]
    singles += [(k, "V", b) for k in kinds for b in ("oovv", "ovov", "vvoo", "ooov")]
    # objects that are not tensors (no name: never excluded), a symbol that merely shares the name of a restricted
    # tensor, a squared tensor (name and block of its base)
    others = [("prefactor", None, ""), ("delta", None, "ov"), ("delta", None, "oo"), ("symbol", "f", ""), ("symbol", "d", ""),
              ("nonsymtensor^2", "f", "ov"), ("antisymtensor^2", "d", "oo"), ("symtensor^2", "x", "vv")]
    # pairs: the 12 (name, block) combinations with the tensor class cycling, in both orders, and with a non-tensor
    cyc = [(kinds[(i + j) % 4], a, b) for i, a in enumerate(names) for j, b in enumerate(blocks)]
    combos = [(x,) for x in singles + others] + [(x, y) for x in cyc for y in cyc] + \
        [(o, x) for o in others[:3] for x in cyc] + [(x, o) for o in others[3:5] for x in cyc]
    n = 0
    for fb in rule_sets:
        assumptions = {"real": True, "sym_tensors": ("d",)}

        def mk():
            terms = []
            for k, objs in enumerate(combos):
                terms.append(Obj("expr_container:Term", f"t{k}",
                                 objects=tuple(_tensor_obj(spec, f"t{k}.o{j}") for j, spec in enumerate(objs))))
            return dict(self=_rules_self({k: list(v) for k, v in fb.items()}), expr=_expr_obj(terms, assumptions))
        outs = sx.run(fn, mk)
        what = f"rules {fb}"
        if len(outs) != 1 or outs[0].kind != "return":
            ctx.bad(rule, fn, f"{what}: evaluation gives {len(outs)} outcomes: {outs[:2]}", key=f"apply shape {sorted(fb)}")
            continue
        parts = expand_products(_term(outs[0].value))
        kept, base = [], []
        for c, fs in parts:
            if c == 1 and len(fs) == 1 and fs[0].op == "sym" and str(fs[0].args[0]).startswith("t"):
                kept.append(int(str(fs[0].args[0])[1:]))
            else:
                base.append((c, fs))
        want = [k for k, objs in enumerate(combos)
                if not any(_is_tensor(sp) and sp[1] in fb and sp[2] in fb[sp[1]] for sp in objs)]
        wrongly_dropped = sorted(set(want) - set(kept))
        wrongly_kept = sorted(set(kept) - set(want))
        dup = sorted({k for k in kept if kept.count(k) > 1})
        n += len(combos)
        ctx.check(rule, fn, not wrongly_dropped, f"{what}: no term without an excluded block is removed",
                  f"{what}: the term with the objects {combos[wrongly_dropped[0]] if wrongly_dropped else ''} is removed although "
                  "none of its tensors sits in a block excluded for that tensor (a term may only be dropped if some tensor has "
                  "its name in the forbidden dict AND its block in the forbidden list of that name)", key=f"drop condition {sorted(fb)}")
        ctx.check(rule, fn, not wrongly_kept, f"{what}: every term with an excluded block is removed",
                  f"{what}: the term with the objects {combos[wrongly_kept[0]] if wrongly_kept else ''} (class, name, block) is kept "
                  "although it contains an excluded tensor block", key=f"keep condition {sorted(fb)}")
        ctx.check(rule, fn, not dup, f"{what}: kept terms added once",
                  f"{what}: term(s) {dup[:3]} are added more than once", key=f"once {sorted(fb)}")
        # the accumulator: zero with the assumptions of the input
        okb = len(base) == 1 and base[0][0] == 1 and len(base[0][1]) == 1 and base[0][1][0].op == "call" \
            and base[0][1][0].args[0] == "Expr"
        if okb:
            a = args_of(base[0][1][0])
            first = a.get("e", a.get(0))
            rest = {k: v for k, v in a.items() if k not in ("e", 0) and v is not None and v is not False}
            okb = first == 0 and rest == assumptions
        ctx.check(rule, fn, okb, f"{what}: result starts from Expr(0) with the assumptions of the input",
                  f"{what}: besides the kept terms the result consists of {[show(t_mul(c, *fs))[:120] for c, fs in base]}, expected "
                  f"Expr(0, **{assumptions})", key=f"return acc {sorted(fb)}")
    ctx.floor(rule, "terms pushed through Rules.apply", n, 300)
    # empty rules: identity
    for fb in (None, {}):
        holder = {}

        def mk():
            holder["expr"] = _expr_obj([Obj("expr_container:Term", "t0",
                                            objects=(_tensor_obj(("antisymtensor", "f", "ov"), "t0.o0"),))], {})
            return dict(self=_rules_self(fb), expr=holder["expr"])
        outs = sx.run(fn, mk)
        ctx.check(rule, fn, len(outs) == 1 and outs[0].kind == "return" and outs[0].value is holder["expr"],
                  f"empty rules ({fb}) return the input", f"empty rules ({fb}) do not return the input expression: {outs[:2]}",
                  key=f"empty rules {fb}")
    # the guard on the input type
    outs = sx.run(fn, lambda: dict(self=_rules_self({"f": ["ov"]}), expr=Obj(None, "expr", _classes=("Mul",), terms=[],
                                                                          assumptions={})))
    ctx.check(rule, fn, all(o.kind == "raise" for o in outs), "a plain sympy object is refused",
              f"Rules.apply accepts an expression that is not an Expr: {outs[:2]}", key="apply input guard")
    ie = ctx.model.fn("rules:Rules.is_empty")
    for fb, want in ((None, True), ({}, True), ({"f": ["ov"]}, False), ({"f": []}, False)):
        o2 = Symex(ctx.model, inline=_inline_except(), what="Rules.is_empty").run(ie, lambda: dict(self=_rules_self(fb)))
        ctx.check(rule, ie, len(o2) == 1 and o2[0].kind == "return" and o2[0].value is want,
                  f"is_empty({fb}) is {want}", f"is_empty with forbidden blocks {fb} gives {o2[:2]}, expected {want}",
                  key="is_empty" if fb == {"f": ["ov"]} else f"is_empty {fb}")


# ---------------------------------------------------------------------------
# R01d: wicks on abstract sympy expressions


class _WicksScenario:
    """``expr.doit(wicks=True).expand()`` gives ``expanded`` (an abstract Add / Mul / other object)."""

    def __init__(self, kind, n_ops=0, n_c=0, top=("Mul",), terms=3):
        self.kind, self.n_ops, self.n_c, self.top, self.terms = kind, n_ops, n_c, top, terms
        self.doit_kw = []

    def build(self):
        ops = [_operator("Fd" if k % 2 else "F", _index(f"x{k}", "general"), pos=k) for k in range(self.n_ops)]
        cs = [_tensor(f"A{k}") for k in range(self.n_c)]
        # interleave commuting factors and operators
        args = []
        for k in range(max(len(ops), len(cs))):
            if k < len(cs):
                args.append(cs[k])
            if k < len(ops):
                args.append(ops[k])
        commut = self.n_ops == 0
        if self.kind == "Add":
            X = Obj(None, "X", _classes=("Add", "Expr", "Basic"), args=[Obj(None, f"term{k}", _classes=("Mul", "Expr", "Basic"),
                                                                           is_commutative=False) for k in range(self.terms)],
                    is_commutative=False, is_number=False)
        elif self.kind == "Mul":
            X = Obj(None, "X", _classes=("Mul", "Expr", "Basic"), args=args, is_commutative=commut, is_number=False)
        elif self.kind == "PowOp":    # sympy merges adjacent identical operators: a_p a_p -> Pow(a_p, 2)
            X = _op_power(_operator("F", _index("x0", "general")), 2)
        elif self.kind == "MulPow":   # ... also inside a longer string: A0 * a_p**2 * a+_q * a_r ...
            args = list(cs) + [_op_power(ops[0], 2)] + ops[1:]
            X = Obj(None, "X", _classes=("Mul", "Expr", "Basic"), args=args, is_commutative=False, is_number=False)
        elif self.kind in KINDS:     # a bare operator: doit/expand give the operator itself
            X = Obj(None, "X", _classes=(self.kind, "FermionicOperator", "SqOperator", "Expr", "Basic"),
                    args=[_index("x0", "general")], is_commutative=False, is_number=False)
        else:
            X = Obj(None, "X", _classes=(self.kind, "Expr", "Basic"), args=[], is_commutative=True, is_number=False)
        D = Obj(None, "D", _expanded=X, _classes=X.attrs["_classes"], is_commutative=X.attrs["is_commutative"],
                args=X.attrs["args"], is_number=False)
        E = Obj(None, "expr", _done=D, _classes=tuple(self.top) + ("Expr", "Basic"), is_commutative=X.attrs["is_commutative"],
                is_number=False, args=X.attrs["args"])
        self.X, self.ops, self.cs = X, ops, cs
        return E

    def hooks(self):
        def doit(sx, a, kw):
            recv = a[0]
            if isinstance(recv, Obj) and "_done" in recv.attrs:
                self.doit_kw.append(dict(kw))
                return recv.attrs["_done"]
            return NotImplemented

        def expand(sx, a, kw):
            recv = a[0]
            if isinstance(recv, Obj) and "_expanded" in recv.attrs:
                return recv.attrs["_expanded"]
            if isinstance(recv, Obj) and recv is self.X or is_num(recv):
                return recv
            return NotImplemented
        return _hooks(doit=doit, expand=expand)


def _peel(v):
    """(layers from the outside in, core): the rule application, the delta evaluation and the container
    conversions around the core value; ``.expand()`` changes neither value nor type."""
    layers = []
    while True:
        v = _term(v)
        if isinstance(v, T) and v.op == "attr" and v.args[1] == "sympy":
            layers.append(("sympy", None))
            v = v.args[0]
        elif isinstance(v, T) and v.op == "mcall" and v.args[1] in TRANSPARENT_MCALLS:
            v = v.args[0]
        elif isinstance(v, T) and v.op == "call" and v.args[0] == "Expr":
            a = args_of(v)
            layers.append(("Expr", tuple(sorted((str(k), repr(x)) for k, x in a.items() if k not in ("e", 0)
                                                and x is not None and x is not False))))
            v = a.get("e", a.get(0))
        elif isinstance(v, T) and v.op == "mcall" and v.args[1] == "apply":
            a = args_of(v)
            layers.append(("apply", v.args[0]))
            v = a.get("expr", a.get(0))
        elif isinstance(v, T) and v.op == "call" and v.args[0] == "evaluate_deltas":
            a = args_of(v)
            layers.append(("deltas", a.get("target_idx", a.get(1))))
            v = a.get("expr", a.get(0))
        else:
            return layers, v


def _layer_types(layers):
    """Type discipline of the layers, inside out: Expr(.) wraps a plain sympy object (without assumptions of its
    own), rules.apply maps a container to a container, .sympy unwraps, evaluate_deltas works on plain objects.
    Returns (type of the final value, first problem | None)."""
    t = "sympy"
    for kind, info in reversed(layers):
        if kind == "Expr":
            if t != "sympy":
                return t, "Expr(.) of a container"
            if info:
                return t, f"the result is wrapped with assumptions of its own {info}"
            t = "Expr"
        elif kind == "apply":
            if t != "Expr":
                return t, "rules.apply is given a plain sympy object, not Expr(result)"
        elif kind == "sympy":
            if t != "Expr":
                return t, ".sympy of a plain object"
            t = "sympy"
        elif kind == "deltas":
            if t != "sympy":
                return t, "evaluate_deltas is given a container"
    return t, None


def _is_zero(v):
    v = _term(v)
    return not expand_products(strip(v, mcalls=TRANSPARENT_MCALLS)) if isinstance(v, T) or is_num(v) else False


def _wicks_run(ctx, scen, rules, flag):
    fn_c = ctx.model.fn(f"{FUNC}:_contract_operator_string")

    def contract(sx, a, kw):
        # uninterpreted, except that a string with an odd number of operators has no complete contraction
        # (decided by R01c/R01e for the code itself)
        ops = sx.bind(fn_c, a, kw).get("op_string")
        if isinstance(ops, (list, tuple)) and len(ops) % 2:
            return 0
        return NotImplemented
    hooks = scen.hooks()
    hooks["_contract_operator_string"] = contract
    sx = Symex(ctx.model, what="wicks", hooks=hooks, max_paths=64,
               inline=_inline_except("func:wicks", "func:_contract_operator_string", "func:evaluate_deltas",
                                     "rules:Rules.apply"))
    sx.on_start = _assume_not_none("rules", "expr", "X", "D")
    sx.oracle = _Generic(lambda t: t.op == "call" and t.args[0] == "_contract_operator_string" or
                         t.op == "sym" and str(t.args[0]).startswith("A"))
    sx.concrete_key = _is_index_term

    def args():
        r = None if rules is None else Obj("rules:Rules", "rules") if rules == "rules" else \
            Obj(None, "rules", _classes=("dict",))
        return dict(expr=scen.build(), rules=r, simplify_kronecker_deltas=flag)
    return _returns(sx.run(f"{FUNC}:wicks", args), "wicks")


def r01d_wicks(ctx):
    rule = "R01d"
    w = ctx.model.fn(f"{FUNC}:wicks")
    n = 0
    combos = [(r, f) for r in (None, "rules") for f in (False, True)]
    # NO / single operator: zero
    for top in (("NO",), ("F", "FermionicOperator"), ("Fd", "FermionicOperator")):
        for rules, flag in combos:
            scen = _WicksScenario("Mul", 2, 0, top=top) if top[0] == "NO" else _WicksScenario(top[0], top=top)
            outs = _wicks_run(ctx, scen, rules, flag)
            n += 1
            ctx.check(rule, w, all(o.kind == "return" and _is_zero(_peel(o.value)[1]) for o in outs),
                      f"{top[0]} alone gives zero", f"wicks of a bare {top[0]} object gives {outs[:2]}, expected zero",
                      key=f"bare {top[0]}")
    # a power of an operator (adjacent identical operators) vanishes: alone and as a factor of a longer string
    for kind, k, c in (("PowOp", 0, 0), ("MulPow", 1, 0), ("MulPow", 2, 1), ("MulPow", 3, 2)):
        for rules, flag in combos:
            scen = _WicksScenario(kind, k, c)
            outs = _wicks_run(ctx, scen, rules, flag)
            n += 1
            ctx.check(rule, w, all(o.kind == "return" and _is_zero(_peel(o.value)[1]) for o in outs),
                      "a squared operator gives zero",
                      f"wicks of {'a squared operator' if kind == 'PowOp' else f'a product of a squared operator, {k - 1} more operator(s) and {c} commuting factor(s)'}"
                      f" gives {outs[:2]}, expected zero (a_p a_p = 0)", key=f"operator power {kind} ops={k}")
    # Mul / other
    cases = [("Mul", k, c) for k in (0, 1, 2, 4) for c in (0, 2)] + [("Symbol", 0, 0), ("AntiSymmetricTensor", 0, 0)]
    for kind, k, c in cases:
        for rules, flag in combos:
            scen = _WicksScenario(kind, k, c)
            outs = _wicks_run(ctx, scen, rules, flag)
            n += 1
            what = (f"product of {k} operator(s) and {c} commuting factor(s)" if kind == "Mul" else f"a {kind}") + \
                f", rules {'given' if rules else 'None'}, delta flag {flag}"
            keyb = f"{kind} ops={k} c={c} rules={bool(rules)} flag={flag}"
            for o in outs:
                if o.kind != "return":
                    ctx.bad(rule, w, f"wicks of {what} raises {o.exc}", key=f"raise {keyb}")
                    continue
                layers, core = _peel(o.value)
                if kind == "Mul" and k == 1:
                    ctx.check(rule, w, _is_zero(core), "single operator gives zero",
                              f"wicks of {what} gives {show(_term(o.value))[:200]}, expected zero", key="single op")
                    continue
                # 1. the core value
                if kind == "Mul" and k >= 2:
                    contr = T("call", "_contract_operator_string", (), (("op_string", tuple(x.term for x in scen.ops)),))
                    want = multiset([_pkey(1, [x.term for x in scen.cs] + [contr])])
                    fact = "commuting part x contraction of the whole operator string (in order)"
                else:
                    want = multiset([_pkey(1, [sym("X")])])
                    fact = "expression without operators is the result"
                got = multiset(_pkey(c_, fs) for c_, fs in expand_products(strip(core, mcalls=TRANSPARENT_MCALLS)))
                missing, surplus = multiset_diff(got, want)
                if kind == "Mul" and k >= 2:
                    cs = [x for x in subterms(core) if x.op == "call" and x.args[0] == "_contract_operator_string"]
                    if not cs:
                        why, key = "the operator string is not contracted", "contract arg"
                    elif any(args_of(x).get("op_string") != tuple(y.term for y in scen.ops) for x in cs):
                        why = (f"contracts `{show(args_of(cs[0]).get('op_string'))}` instead of the whole operator string "
                               f"{[y.name for y in scen.ops]}")
                        key = "contract arg"
                    else:
                        why, key = "commuting part is not multiplied back once onto the contraction result", "mulback"
                    ctx.check(rule, w, not missing and not surplus, fact,
                              f"wicks of {what}: {why}: core value {show(core)[:200]}", key=key)
                else:
                    ctx.check(rule, w, not missing and not surplus, fact,
                              f"wicks of {what}: the value is {show(core)[:200]}, expected the expanded expression itself",
                              key=f"no operators {kind}")
                # 2. delta evaluation: exactly on request (which target indices are protected is decided numerically
                # by R01e, not by the shape of the call)
                dl = [x for x in layers if x[0] == "deltas"]
                need = flag and kind == "Mul" and k >= 2
                okd = len(dl) == (1 if need else 0) or (flag and not need and len(dl) == 1)
                ctx.check(rule, w, okd, "deltas evaluated exactly on request",
                          f"wicks of {what}: {len(dl)} evaluate_deltas layer(s) around the result (expected "
                          f"{'one' if need else 'none'})", key="delta flag")
                # 3. the rules
                al = [x for x in layers if x[0] == "apply"]
                final, problem = _layer_types(layers)
                order = [x[0] for x in layers]
                if rules:
                    oka = len(al) == 1 and al[0][1] == sym("rules")
                    ctx.check(rule, w, oka, "result passed through rules.apply",
                              f"wicks of {what}: `{show(_term(o.value))[:160]}` leaves wicks without passing the block-exclusion "
                              "rules (only zero and the recursive sum may bypass rules.apply)", key=f"return {kind} ops={min(k, 2)}")
                    if oka:
                        ctx.check(rule, w, problem is None and final == "sympy" and "deltas" not in order[:order.index("apply")],
                                  "rules applied to Expr(result) after the delta evaluation, plain object returned",
                                  f"wicks of {what}: layers (outside in) are {order}: "
                                  f"{problem or ('a container is returned' if final != 'sympy' else 'deltas evaluated after the rules')}; "
                                  "expected rules.apply(Expr(result)).sympy", key="apply arg")
                else:
                    ctx.check(rule, w, not al and problem is None and final == "sympy",
                              "no rules: result returned unchanged",
                              f"wicks of {what}: returns {show(_term(o.value))[:160]} ({problem or 'not the plain result'})",
                              key="no rules")
            ctx.check(rule, w, scen.doit_kw and all(kw.get("wicks") is True for kw in scen.doit_kw),
                      "NO objects broken up by doit(wicks=True)", f"wicks calls expr.doit with {scen.doit_kw[:2]}",
                      key="doit wicks")
    # Add: term-wise, same rules and flag, nothing else
    for rules, flag in combos:
        scen = _WicksScenario("Add", terms=3)
        outs = _wicks_run(ctx, scen, rules, flag)
        n += 1
        r = None if rules is None else sym("rules")
        want = multiset(_pkey(1, [T("call", "wicks", (), (("expr", sym(f"term{k}")), ("rules", r),
                                                             ("simplify_kronecker_deltas", flag)))]) for k in range(3))
        for o in outs:
            got = multiset(_pkey(c_, fs) for c_, fs in expand_products(strip(_term(o.value), mcalls=TRANSPARENT_MCALLS))) \
                if o.kind == "return" else {}
            missing, surplus = multiset_diff(got, want)
            ctx.check(rule, w, not missing and not surplus, "Add: wicks of every argument with the same rules/flags",
                      f"Add branch (rules {'given' if rules else 'None'}, flag {flag}) does not give the sum of wicks(term, rules, "
                      f"flag) over all terms: missing {missing[:2]}, surplus {surplus[:2]}", key="add branch")
    # foreign rules object
    scen = _WicksScenario("Mul", 2, 1)
    outs = _wicks_run(ctx, scen, "foreign", False)
    ctx.check(rule, w, all(o.kind == "raise" for o in outs), "rules of a foreign type refused",
              f"wicks accepts a rules object that is not a Rules instance: {outs[:2]}", key="rules type guard")
    ctx.floor(rule, "wicks scenarios", n, 50)


def _pkey(c, fs):
    return f"{Fraction(c)} | " + " * ".join(sorted(show(f) for f in fs if not isinstance(f, T) or f.op != "call")) + " | " + \
        " * ".join(show(f) for f in fs if isinstance(f, T) and f.op == "call")


# ---------------------------------------------------------------------------
# R01e: end to end against the brute-force expectation value


def _e2e(ctx, string, norb, repeat=None, tensor=None, flag=False):
    """wicks(c * o_1 ... o_n) evaluated through the whole pipeline (contraction, prefilter, contraction table, and - for
    ``flag`` - the delta evaluation by a reference model of evaluate_deltas). ``string`` = [(kind, space)]; ``repeat``
    maps a position to an earlier position whose operator object is reused; the commuting factor c is the scalar A
    (``tensor`` None) or a tensor t carrying the indices of the operators at the positions ``tensor`` (those indices are
    contracted, the others are the target indices of the expression). The Mul is built as sympy builds it: commuting
    factors first, adjacent identical operators merged into a power."""
    holder = {}

    def build():
        idx = {}
        ops = []
        for k, (kind, sp) in enumerate(string):
            src = (repeat or {}).get(k)
            if src is not None and isinstance(src, int):
                ops.append(ops[src])
                continue
            if src is not None:          # ("idx", position): a new operator on the index of an earlier one
                i = idx[src[1]]
            else:
                i = _index(f"x{k}", sp)
            idx[k] = i
            ops.append(_operator(kind, i))
        c = _tensor("A") if tensor is None else _indexed_tensor("t", [ops[k].attrs["args"][0] for k in tensor])
        nc = []
        for o in ops:
            if nc and (nc[-1] == o or (isinstance(nc[-1], Obj) and nc[-1].attrs.get("_power_of") == o)):
                prev = nc.pop()
                nc.append(_op_power(o, prev.attrs["exp"] + 1 if "_power_of" in prev.attrs else 2))
            else:
                nc.append(o)
        args = [c] + nc
        if len(args) == 1:
            args = args + []
        X = Obj(None, "X", _classes=("Mul", "Expr", "Basic"), args=args, is_commutative=False, is_number=False)
        holder["ops"] = [(type_of(o), o.attrs["args"][0].attrs["name"], o.attrs["args"][0].attrs["space"]) for o in ops]
        holder["tensor"] = None if tensor is None else ("t", [ops[k].attrs["args"][0].attrs["name"] for k in tensor])
        return Obj(None, "expr", _done=Obj(None, "D", _expanded=X), _classes=("Mul", "Expr", "Basic"), is_commutative=False,
                   is_number=False, args=args)

    def type_of(o):
        return o.attrs["_classes"][0]

    def doit(sx, a, kw):
        return a[0].attrs["_done"] if isinstance(a[0], Obj) and "_done" in a[0].attrs else NotImplemented

    def expand(sx, a, kw):
        if is_num(a[0]):
            return a[0]
        if isinstance(a[0], T):          # sum of products
            return t_add(*[t_mul(c_, *fs) for c_, fs in expand_products(strip(a[0], mcalls=TRANSPARENT_MCALLS))])
        return a[0].attrs["_expanded"] if isinstance(a[0], Obj) and "_expanded" in a[0].attrs else NotImplemented

    fn_ed = ctx.model.fn(f"{FUNC}:evaluate_deltas")

    def deltas(sx, a, kw):
        b = sx.bind(fn_ed, a, kw, fill_defaults=True)
        tg = b.get("target_idx")
        if isinstance(tg, str):
            return NotImplemented
        if tg is not None:
            tg = [_term(x) for x in tg]
        return _ref_evaluate_deltas(b["expr"], tg)

    sx = Symex(ctx.model, what="wicks (end to end)", hooks=_hooks(doit=doit, expand=expand, evaluate_deltas=deltas),
               max_paths=64, inline=_inline_except("rules:Rules.apply"))
    sx.on_start = _assume_not_none("expr", "X", "D")
    sx.oracle = _Generic(lambda t: t.op in ("delta", "tens") or t == sym("A"))
    sx.concrete_key = _is_index_term
    outs = sx.run(f"{FUNC}:wicks", lambda: dict(expr=build(), rules=None, simplify_kronecker_deltas=flag))
    if not outs:
        raise AnalysisError("R01e: no path through wicks")
    for o in outs:
        if o.kind != "return":
            return f"raises {o.exc}"
        if tensor is None:
            why = _compare_numeric(o.value, holder["ops"], norb, factor=3, tensors={"A": 3})
        else:
            why = _compare_numeric(o.value, holder["ops"], norb, tensor=holder["tensor"])
        if why:
            return f"wicks gives {show(_term(o.value))[:200]}; {why}"
    return None


def r01e(ctx):
    rule = "R01e"
    w = ctx.model.fn(f"{FUNC}:wicks")
    dom = list(itertools.product(KINDS, SPACES))
    n = 0
    shown = 0
    for size in (1, 2, 3, 4):
        for string in itertools.product(dom, repeat=size):
            why = _e2e(ctx, list(string), 2)
            n += 1
            label = " ".join(f"{k}_{s}" for k, s in string)
            if why is None:
                ctx.ok(rule, w, f"<{label}> equals the expectation value", key=f"strings n={size}")
            else:
                shown += 1
                if shown <= 4:
                    ctx.bad(rule, w, f"A * <{label}>: {why}", key=f"string {label}")
    # delta evaluation requested, target indices on the operators: the indices that sit on the tensor t are contracted,
    # all other operator indices are target indices of the expression and must survive with their meaning
    memo = {}
    nd = 0
    shown = 0
    subsets2 = [(), (0,), (1,), (0, 1)]
    subsets4 = [(), (0,), (1, 2)] if ctx.tier == "quick" else [(), (0,), (3,), (0, 1), (1, 2), (0, 3), (0, 1, 2, 3)]
    for size, subsets in ((2, subsets2), (4, subsets4)):
        for k, string in enumerate(itertools.product(dom, repeat=size)):
            if size == 4 and not _has_pairing(string, memo) and k % 12:
                continue
            for sub in subsets:
                why = _e2e(ctx, list(string), 2, tensor=sub, flag=True)
                nd += 1
                label = f"t_{{{','.join('x%d' % q for q in sub)}}} * <" + " ".join(f"{kd}_{sp}(x{q})" for q, (kd, sp) in enumerate(string)) + ">"
                if why is None:
                    ctx.ok(rule, w, f"{label} with delta evaluation equals the expectation value", key=f"deltas n={size} t{sub}")
                else:
                    shown += 1
                    if shown <= 4:
                        ctx.bad(rule, w, f"{label} with simplify_kronecker_deltas=True: {why}", key=f"deltas {label}")
    for string, sub in (([("Fd", "general"), ("F", "general"), ("Fd", "general"), ("F", "general"), ("Fd", "general"),
                          ("F", "general")], (1, 2)),
                        ([("F", "general"), ("Fd", "general"), ("Fd", "occ"), ("F", "general"), ("F", "virt"), ("Fd", "general")],
                         (0, 3, 5))):
        why = _e2e(ctx, string, 2, tensor=sub, flag=True)
        nd += 1
        label = f"t_{sub} * <" + " ".join(f"{kd}_{sp}" for kd, sp in string) + ">"
        ctx.check(rule, w, why is None, f"{label} with delta evaluation equals the expectation value",
                  f"{label} with simplify_kronecker_deltas=True: {why}", key=f"deltas six {label}")
    ctx.floor(rule, "operator strings evaluated end to end with delta evaluation", nd, 500)
    # strings in which an operator (or an index) occurs more than once; adjacent identical operators are a power
    rep = [([("Fd", "occ"), ("F", "occ"), ("Fd", "occ"), ("F", "occ")], {2: 0, 3: 1}),
           ([("F", "virt"), ("Fd", "virt"), ("F", "virt"), ("Fd", "virt")], {2: 0, 3: 1}),
           ([("Fd", "general"), ("F", "general"), ("Fd", "general"), ("F", "general")], {2: 0, 3: 1}),
           ([("Fd", "general"), ("F", "general"), ("F", "general"), ("Fd", "general")], {2: 1, 3: 0}),
           ([("Fd", "occ"), ("F", "occ"), ("Fd", "occ"), ("F", "occ")], {1: ("idx", 0), 3: ("idx", 2)}),
           ([("F", "general"), ("Fd", "general"), ("Fd", "general"), ("F", "general")], {1: ("idx", 0), 3: ("idx", 2)}),
           ([("Fd", "occ"), ("F", "occ"), ("Fd", "occ"), ("F", "occ")], {2: 0}),
           ([("F", "general"), ("F", "general")], {1: 0}),
           ([("Fd", "occ"), ("Fd", "occ")], {1: 0}),
           ([("F", "virt"), ("F", "virt"), ("Fd", "virt"), ("Fd", "virt")], {1: 0, 3: 2}),
           ([("F", "virt"), ("F", "virt"), ("Fd", "virt"), ("Fd", "general")], {1: 0}),
           ([("Fd", "occ"), ("F", "general"), ("F", "general"), ("F", "occ")], {2: 1}),
           ([("F", "virt"), ("Fd", "virt"), ("Fd", "virt"), ("F", "virt")], {2: 1}),
           ([("F", "general"), ("F", "general"), ("F", "general"), ("Fd", "general")], {1: 0, 2: 0})]
    if ctx.tier != "quick":
        rep.append(([("Fd", "occ"), ("F", "virt"), ("Fd", "virt"), ("F", "occ"), ("Fd", "occ"), ("F", "virt"), ("Fd", "virt"),
                     ("F", "occ")], {4: 0, 5: 1, 6: 2, 7: 3}))
    for string, repeat in rep:
        why = _e2e(ctx, string, 2, repeat)
        n += 1
        label = " ".join(f"{k}_{s}" for k, s in string) + f" repeated {repeat}"
        ctx.check(rule, w, why is None, f"<{label}> equals the expectation value", f"A * <{label}>: {why}",
                  key=f"repeated {label}")
    six = [[("F", "virt"), ("Fd", "virt"), ("F", "virt"), ("Fd", "virt"), ("F", "virt"), ("Fd", "virt")],
           [("Fd", "occ"), ("F", "virt"), ("F", "general"), ("Fd", "general"), ("Fd", "virt"), ("F", "occ")]]
    if ctx.tier != "quick":
        six += [[("Fd", "occ"), ("F", "occ"), ("Fd", "occ"), ("F", "occ"), ("Fd", "occ"), ("F", "occ")],
                [("Fd", "occ"), ("Fd", "occ"), ("F", "virt"), ("Fd", "virt"), ("F", "occ"), ("F", "occ")],
                [("F", "virt"), ("F", "virt"), ("F", "virt"), ("Fd", "virt"), ("Fd", "virt"), ("Fd", "virt")],
                [("Fd", "general"), ("F", "general"), ("Fd", "occ"), ("F", "occ"), ("F", "virt"), ("Fd", "virt")]]
    for string in six:
        why = _e2e(ctx, string, 3)
        n += 1
        label = " ".join(f"{k}_{s}" for k, s in string)
        ctx.check(rule, w, why is None, f"<{label}> equals the expectation value (3+3 orbitals)", f"A * <{label}>: {why}",
                  key=f"six {label}")
    ctx.floor(rule, "operator strings evaluated end to end", n, 1500)


def run(ctx):
    if ctx.want("R01a"):
        r01a(ctx)
    if ctx.want("R01b"):
        r01b(ctx)
    if ctx.want("R01c"):
        r01c(ctx)
    if ctx.want("R01d"):
        r01d_apply(ctx)
        r01d_wicks(ctx)
    if ctx.want("R01e"):
        r01e(ctx)
