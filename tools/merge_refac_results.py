"""One-off helper of the round-6/7 session: rebuilds refactors/RESULTS.md from (a) the table evaluated against all 20
checks at /verif a825b36, (b) the logs of the complete runs on the round-6/7 entries and (c) the stored rows of the
incremental runs of tools/corpus_eval.py --changed-props (inputs under /tmp of that session; kept for the record of how the
table was put together - a complete re-evaluation is `tools/corpus_eval.py` without options, about 1.5 h)."""
import json, os, re
HERE="/verif"
old={}
for ln in open("/tmp/refac_results_old.md"):
    if ln.startswith("| ") and not ln.startswith("| refactoring") :
        c=[x.strip() for x in ln.strip().strip("|").split(" | ")]
        old[c[0]]=c[-1]
r6={}
for ln in open("/tmp/refac6_final.log"):
    p=ln.split()
    if len(p)>=3 and p[0]=="refactor": r6[p[1]]=p[2]
r7={}
for f in ("/tmp/refac7.log","/tmp/refac7b.log","/tmp/refac7c.log"):
    for ln in open(f):
        p=ln.split()
        if len(p)>=3 and p[0]=="refactor" and p[2] in ("SILENT","ALARM"): r7[p[1]]=p[2] if p[2]=="SILENT" else ln.split(None,2)[2].strip()
inc={}
for f in ("/tmp/rows_refac.json","/tmp/rows_refac2.json"):
    if os.path.exists(f):
        for k,v in json.load(open(f)).items():
            kind,i=k.split(":",1)
            if kind=="refactor": inc.setdefault(i,[]).append(v)
lines=["The entries `RN_<name>` are mechanical: one private name (underscore function, cached property) renamed "
 "consistently in the whole package (the suite passes with all of them applied together). "
 "Every other refactoring was written by an independent sub-agent that saw only the library (its own scratch worktree), was "
 "asked for behaviour-preserving edits of the functions the rules inspect, ran the 127 tests and differential runs "
 "with each patch, and knew nothing about /verif. Each patch is applied to a scratch worktree of /repo's HEAD and the checks "
 "(quick tier) are run against it; any VIOLATION or ANALYSIS-ERROR is a false alarm. *How this table was evaluated:* rounds 1-5 and the "
 "`RN_` entries were evaluated against all 20 checks at /verif a825b36 (/repo 76e1704, all silent); in this session the rule modules of "
 "C06, C07, C11, C14, C15, C17, C19, C20 and the evaluator changed, so every refactoring was re-evaluated (`tools/corpus_eval.py "
 "--changed-props=...`, /repo 4cf2d63) against those of the eight changed checks that read a file the patch touches; the verdicts of the twelve "
 "unchanged checks are carried over. The round-6 entries (`6A1..6F6`) were evaluated against all 20 checks after the three engine gaps "
 "they exposed were closed (before: 6A2, 6B6 and 6E1 alarmed, section 10). The round-7 entries (`7G1..7I4`, written at the end of the session against the "
 "functions of the clauses added in this session, /repo 4cf2d63) were evaluated against all 20 checks; 7G3 alarmed before the C18 clause it tripped was re-founded.",
 "", "| refactoring | files | what was changed | verdict of all checks |", "|---|---|---|---|"]
bad=0; n=0; missing=[]
for rid in sorted(os.listdir(f"{HERE}/refactors")):
    p=f"{HERE}/refactors/{rid}/patch.diff"
    if not os.path.exists(p): continue
    n+=1
    base = r6.get(rid) if rid.startswith("6") else (r7.get(rid) if rid.startswith("7") else old.get(rid))
    if base is None: missing.append(rid); base="NOT-EVALUATED"
    alarms={}
    for verdict,info in inc.get(rid,[]):
        if verdict not in ("SILENT",):
            if verdict=="ALARM": alarms.update(info)
            else: alarms[verdict]=info
    if rid not in inc and not rid.startswith("7"): missing.append(rid+"(inc)")
    v = base
    if alarms:
        v = "ALARM " + ", ".join(f"{k} exit {x[0]}" if isinstance(x,list) else str(k) for k,x in sorted(alarms.items()))
    if v!="SILENT": bad+=1
    note=f"{HERE}/refactors/{rid}/note.txt"
    files=sorted({ln[6:].strip() for ln in open(p) if ln.startswith("+++ b/")})
    lines.append("| "+" | ".join([rid, ", ".join(f.replace("adcgen/","") for f in files), " ".join(open(note).read().split())[:260] if os.path.exists(note) else "", v])+" |")
lines += ["", f"{n} refactorings evaluated, {bad} with alarms."]
open(f"{HERE}/refactors/RESULTS.md","w").write("\n".join(lines)+"\n")
print(n,bad,"missing:",missing[:20],len(missing))
