"""C13 orbital-energy fraction algebra and Fock diagonalisation (structural)."""
from __future__ import annotations

import ast

from ..model import AnalysisError, U, Defs, calls_in, call_name, walk_fn, kwarg, enclosing, enclosing_stmt
from ..pathcond import conditions
from . import common
from .skeleton import skeleton, term_level, polynom_level, obj_level, expr_level

EXPLANATION = (
    "R13a: compensated sign flips in EriOrbenergy.canonicalize_sign (prefactor and numerator "
    "negated together; a bracket replaced by Pow(-base, exponent) is paired with a prefactor flip "
    "under odd exponent; desired signs occ '+', virt '-'). R13b: every symmetriser `acc = x; for "
    "(p, f) in S: acc += P(x) f` is normalised by 1/(len(S)+1) of the same S (permute_num, "
    "Term.symmetrize, derivative). R13c: symbolic denominators: writer (symbolic_denominator: "
    "+1 -> first group, -1 -> second, SymmetricTensor, bra-ket symmetry -1, exponent kept, name "
    "registered as antisymmetric) and reader (use_explicit_denominators: first group added, second "
    "subtracted, exponent negated, name de-registered) are inverse. R13d: homomorphism skeleton "
    "and exponent accounting for use_explicit_denominators, block_diagonalize_fock, "
    "expand_antisym_eri, expand_intermediates. R13e: split_orb_energy sends every object to exactly "
    "one of num/denom/remainder as Pow(base, |exponent|); expr multiplies num, eri, pref and "
    "divides by denom once; bracket/object cancellation lowers the exponent by the multiplicity. "
    "R13f: Fock rules (off-diagonal blocks zeroed; the index that did not survive the delta is "
    "substituted, exponent kept; conflicting substitutions refused, targets set). R13g: "
    "sub-expressions with equal ERI/denominator keep every term once (factor_eri_parts, "
    "factor_denom, reduce_expr bookkeeping). R13h: bookkeeping of the fraction cancellation (running "
    "prefactor, bracket subtraction, exponent lowering, leftover numerator added on every way out of the loop).")
ASSUMPTIONS = [
    "cancel_orb_energy_frac, the choice of permutations in permute_num and find_compatible_denom "
    "are algorithms whose soundness is a runtime statement; only their bookkeeping is checked",
]

EO = "eri_orbenergy:EriOrbenergy."
EC = "expr_container:"


def symmetriser_normalisation(ctx, rule, fnref):
    fn = ctx.model.fn(fnref)
    lab = fnref.split(":")[1]
    loops = []
    for n in walk_fn(fn):
        if isinstance(n, ast.For) and any(isinstance(a, ast.AugAssign) and isinstance(a.op, ast.Add) and ".permute(*" in U(a.value)
                                          for a in n.body):
            loops.append(n)
    ctx.floor(rule, f"symmetriser loop in {lab}", len(loops), 1)
    for lp in loops:
        s = U(lp.iter)
        base = s[:-len(".items()")] if s.endswith(".items()") else s
        want = f"Rational(1,len({base})+1)"
        found = [c for c in calls_in(fn) if call_name(c) == "Rational" and U(c).replace(" ", "") == want]
        ctx.check(rule, lp, len(found) == 1, f"{lab}: symmetrised sum over `{base}` divided by len({base}) + 1",
                  f"{lab}: the sum over the identity and the {base} operations is not normalised by 1/(len({base}) + 1)",
                  key=f"{lab} normalisation")


def r13a(ctx):
    rule = "R13a"
    fn = ctx.model.fn(EO + "canonicalize_sign")
    flips = [n for n in walk_fn(fn, nested=False) if isinstance(n, ast.AugAssign) and U(n.value) == "-1" and isinstance(n.op, ast.Mult)]
    num = [f for f in flips if U(f.target) == "self._num"]
    prf = [f for f in flips if U(f.target) == "self._pref"]
    ok = len(num) == 1 and any(p._parent is num[0]._parent for p in prf)
    ctx.check(rule, fn, ok, "numerator and prefactor negated together", "numerator sign flip is not compensated in the prefactor",
              key="num flip")
    if num:
        cs = conditions(num[0])
        ok = ("adjust_sign(self.num)", True) in cs and ("only_denom", False) in cs
        ctx.check(rule, num[0], ok, "numerator flipped only when its signs are wrong and not only_denom",
                  "numerator flip condition changed", key="num flip cond")
    den = [p for p in prf if not (num and p._parent is num[0]._parent)]
    ok = len(den) == 1 and ("exponent % 2", True) in conditions(den[0]) and ("adjust_sign(bracket)", True) in conditions(den[0])
    ctx.check(rule, fn, ok, "bracket flip changes the prefactor iff its exponent is odd", "denominator sign compensation changed",
              key="denom flip")
    br = [a for a in walk_fn(fn, nested=False) if isinstance(a, ast.Assign) and U(a.targets[0]) == "bracket"]
    ok = len(br) == 1 and U(br[0].value).replace(" ", "") == "e.Expr(Pow(-1*base,exponent),**bracket.assumptions)" \
        and ("adjust_sign(bracket)", True) in conditions(br[0])
    ctx.check(rule, fn, ok, "flipped bracket = (-base)**exponent", "bracket replacement changed", key="bracket flip")
    acc = [n for n in walk_fn(fn, nested=False) if isinstance(n, ast.AugAssign) and U(n.target) == "denom"]
    ctx.check(rule, fn, len(acc) == 1 and isinstance(acc[0].op, ast.Mult) and U(acc[0].value) == "bracket"
              and U(enclosing(acc[0], ast.For).iter) == "self.denom_brackets" and acc[0]._parent is enclosing(acc[0], ast.For),
              "every bracket multiplied back once", "denominator rebuild changed", key="denom rebuild")
    adj = ctx.model.fn(EO + "canonicalize_sign.adjust_sign")
    ds = [a for a in common.assigns_to(adj, "desired_sign")]
    ctx.check(rule, adj, len(ds) == 1 and U(ds[0].value) == "{'o': 'plus', 'v': 'minus'}", "occupied '+', virtual '-'",
              "desired signs changed", key="desired")
    cmp_ = [n for n in walk_fn(adj) if isinstance(n, ast.If) and U(n.test) == "sign[0] != desired_sign[ov]"]
    ctx.check(rule, adj, len(cmp_) == 1, "flip requested iff the sign differs from the desired one", "sign comparison changed",
              key="compare")
    ts = ctx.model.fn(EC + "Term.sign")
    r = common.returns_of(ts)
    ctx.check(rule, ts, U(r[0].value) == "'minus' if self.prefactor < 0 else 'plus'", "sign word from the prefactor", "Term.sign changed",
              key="term sign")


def r13b(ctx):
    rule = "R13b"
    symmetriser_normalisation(ctx, rule, EO + "permute_num")
    symmetriser_normalisation(ctx, rule, EC + "Term.symmetrize")
    symmetriser_normalisation(ctx, rule, "derivative:derivative")
    fn = ctx.model.fn(EO + "permute_num")
    st = [a for a in common.assigns_to(fn, "num") if isinstance(a, ast.Assign)]
    ctx.check(rule, fn, bool(st) and U(st[0].value) == "self.num.copy()", "starts from the unpermuted numerator", "start changed",
              key="permute_num start")
    lp = [n for n in walk_fn(fn) if isinstance(n, ast.For) and U(n.iter) == "permutations"]
    ok = len(lp) == 1 and U(lp[0].body[0]) == "num += self.num.copy().permute(*perms) * factor"
    ctx.check(rule, fn, ok, "each operation applied to the original numerator with its factor", "permute_num loop changed", key="permute_num loop")
    pm = [a for a in common.assigns_to(fn, "permutations")]
    ok = len(pm) == 1 and isinstance(pm[0].value, ast.ListComp) and [U(i) for i in pm[0].value.generators[0].ifs] == ["factor is not None"] \
        and "only_contracted=True" in U(pm[0].value.generators[0].iter)
    ctx.check(rule, fn, ok, "only common symmetries of ERI and denominator over contracted indices", "selection of permutations changed",
              key="permute_num selection")
    mp = [n for n in walk_fn(fn) if isinstance(n, ast.AugAssign) and U(n.target) == "self._pref"]
    ctx.check(rule, fn, len(mp) == 1 and isinstance(mp[0].op, ast.Mult) and U(mp[0].value) == "additional_pref",
              "extracted prefactor moved to pref", "prefactor bookkeeping changed", key="permute_num pref")
    sy = ctx.model.fn(EC + "Term.symmetrize")
    lp = [n for n in walk_fn(sy) if isinstance(n, ast.For)]
    ok = len(lp) == 1 and U(lp[0].body[0]) == "res += self.permute(*perm).sympy * factor" and U(lp[0].iter) == "symmetry.items()"
    ctx.check(rule, sy, ok, "symmetrize: each operation once with its factor", "symmetrize loop changed", key="symmetrize loop")
    s0 = [a for a in common.assigns_to(sy, "symmetry")]
    ctx.check(rule, sy, len(s0) == 1 and U(s0[0].value) == "self.symmetry(only_contracted=True)", "only contracted indices",
              "symmetrize symmetry source changed", key="symmetrize source")
    des = ctx.model.fn(EO + "denom_eri_sym")
    tab = {}
    for a in walk_fn(des):
        if isinstance(a, ast.Assign) and U(a.targets[0]) == "ret[perms]":
            cs = conditions(a)
            k = "minus" if ("denom - perm_denom is S.Zero", True) in cs else "plus" if ("denom + perm_denom is S.Zero", True) in cs else "none"
            tab[k] = U(a.value)
    ctx.check(rule, des, tab == {"minus": "factor", "plus": "factor * -1", "none": "None"},
              "P D = D keeps the ERI factor, P D = -D negates it, else None", f"denominator symmetry table {tab}", key="denom_eri_sym")


def r13c(ctx):
    rule = "R13c"
    w = ctx.model.fn(EO + "symbolic_denominator")
    adds = {}
    for c in calls_in(w):
        if call_name(c) == "add" and U(c.func.value).startswith("signs["):
            cs = conditions(c)
            which = "one" if ("pref is S.One", True) in cs else "minus" if ("pref is S.NegativeOne", True) in cs else "?"
            adds[which] = U(c.func.value)
    ctx.check(rule, w, adds == {"one": "signs['+']", "minus": "signs['-']"}, "prefactor +1 -> '+' group, -1 -> '-' group",
              f"sign classification {adds}", key="writer signs")
    st = [c for c in calls_in(w) if call_name(c) in ("SymmetricTensor", "AntiSymmetricTensor")]
    ok = len(st) == 1 and call_name(st[0]) == "SymmetricTensor" and [U(a) for a in st[0].args] == \
        ["tensor_names.sym_orb_denom", "signs['+']", "signs['-']", "-1"]
    ctx.check(rule, w, ok, "D = SymmetricTensor(name, added, subtracted, bra-ket symmetry -1)",
              f"symbolic denominator built as `{U(st[0]) if st else None}`", key="writer tensor")
    pw = [c for c in calls_in(w) if call_name(c) == "Pow"]
    ok = len(pw) == 1 and U(pw[0].args[1]) == "exponent"
    ex = [a for a in common.assigns_to(w, "exponent")]
    ok = ok and len(ex) == 1 and U(ex[0].value) == "1 if isinstance(bracket, e.Expr) else bracket.exponent"
    ctx.check(rule, w, ok, "exponent of the bracket kept", "exponent of the symbolic denominator changed", key="writer exponent")
    reg = [c for c in calls_in(w) if call_name(c) == "set_antisym_tensors"]
    ok = len(reg) == 1 and "tensor_names.sym_orb_denom" in U(reg[0].args[0]) and ("has_symbolic_denom", True) in conditions(reg[0])
    ctx.check(rule, w, ok, "name registered as bra-ket antisymmetric", "registration of the symbolic denominator changed", key="writer register")
    mul = [n for n in walk_fn(w) if isinstance(n, ast.AugAssign) and U(n.target) == "symbolic_denom"]
    ctx.check(rule, w, len(mul) == 1 and isinstance(mul[0].op, ast.Mult) and U(enclosing(mul[0], ast.For).iter) == "self.denom_brackets",
              "one tensor per bracket", "bracket iteration changed", key="writer brackets")
    r = ctx.model.fn(EC + "Obj.use_explicit_denominators")
    ops = {}
    for n in walk_fn(r):
        if isinstance(n, ast.AugAssign) and U(n.target) == "explicit_denom":
            lp = enclosing(n, ast.For)
            ops[U(lp.iter)] = (type(n.op).__name__, U(n.value).replace(" ", "").replace("\n", ""))
    want = {"tensor.upper": ("Add", "NonSymmetricTensor(tensor_names.orb_energy,(s,))"),
            "tensor.lower": ("Sub", "NonSymmetricTensor(tensor_names.orb_energy,(s,))")}
    ctx.check(rule, r, ops == want, "first group added, second group subtracted", f"explicit denominator built as {ops}", key="reader signs")
    pw = [a for a in walk_fn(r) if isinstance(a, ast.Assign) and U(a.targets[0]) == "explicit_denom" and "Pow(" in U(a.value)]
    ok = len(pw) == 1 and U(pw[0].value).replace(" ", "") == "Pow(explicit_denom,-exponent)"
    ctx.check(rule, r, ok, "exponent negated (D stands for the inverse bracket)", "exponent of the explicit denominator changed",
              key="reader exponent")
    g = [n for n in walk_fn(r) if isinstance(n, ast.If) and U(n.test) == "self.name == tensor_names.sym_orb_denom"]
    ctx.check(rule, r, len(g) == 1, "only the symbolic denominator is replaced", "name test changed", key="reader name")
    z = [a for a in walk_fn(r) if isinstance(a, ast.Assign) and U(a.targets[0]) == "explicit_denom" and U(a.value) == "0"]
    ctx.check(rule, r, len(z) == 1, "bracket starts at 0", "bracket initialisation changed", key="reader init")
    ex = ctx.model.fn(EC + "Expr.use_explicit_denominators")
    rm = [c for c in calls_in(ex) if call_name(c) == "remove" and U(c.func.value) == "self._antisym_tensors"]
    ctx.check(rule, ex, len(rm) == 1 and U(rm[0].args[0]) == "tensor_names.sym_orb_denom", "name de-registered",
              "de-registration changed", key="reader deregister")
    # Term.use_symbolic_denominators : D * pref * num * eri
    t = ctx.model.fn(EC + "Term.use_symbolic_denominators")
    ret = common.returns_of(t)
    fs = sorted(U(f) for f in _flatten(ret[0].value))
    ctx.check(rule, t, fs == ["symbolic_denom", "term.eri.sympy", "term.num.sympy", "term.pref"], "D * pref * num * eri",
              f"symbolic term assembled from {fs}", key="symbolic product")
    e_ = ctx.model.fn(EC + "Expr.use_symbolic_denominators")
    lp = [n for n in walk_fn(e_) if isinstance(n, ast.For) and U(n.iter) == "self.terms"]
    ok = len(lp) == 1 and any(isinstance(x, ast.AugAssign) and U(x) == "symbolic_denom += term.sympy" for x in lp[0].body) \
        and not any(isinstance(x, (ast.Continue, ast.Break)) for x in ast.walk(lp[0]))
    ctx.check(rule, e_, ok, "every term converted and added once", "term loop of use_symbolic_denominators changed", key="symbolic expr")


def _flatten(n):
    if isinstance(n, ast.BinOp) and isinstance(n.op, ast.Mult):
        return _flatten(n.left) + _flatten(n.right)
    return [n]


def r13d(ctx):
    rule = "R13d"
    skeleton(ctx, rule, "use_explicit_denominators")
    skeleton(ctx, rule, "block_diagonalize_fock", allow_zero=True)
    skeleton(ctx, rule, "expand_antisym_eri")
    # expand_intermediates: Expr level accumulates Expr objects
    term_level(ctx, rule, "expand_intermediates")
    polynom_level(ctx, rule, "expand_intermediates")
    fn = ctx.model.fn(EC + "Expr.expand_intermediates")
    lp = [n for n in walk_fn(fn) if isinstance(n, ast.For) and U(n.iter) == "self.terms"]
    ok = len(lp) == 1 and len(lp[0].body) == 1 and U(lp[0].body[0]) == f"expanded += {U(lp[0].target)}.expand_intermediates(fully_expand=fully_expand)"
    ctx.check(rule, fn, ok, "Expr.expand_intermediates: every term expanded once, flag forwarded", "Expr.expand_intermediates loop changed",
              key="Expr.expand_intermediates")
    ob = ctx.model.fn(EC + "Obj.expand_intermediates")
    pw = [a for a in walk_fn(ob) if isinstance(a, ast.Assign) and U(a.targets[0]) == "expanded" and "Pow(" in U(a.value)]
    ex = [a for a in walk_fn(ob) if isinstance(a, ast.Assign) and U(a.targets[0]) == "exponent"]
    ok = len(pw) == 1 and U(pw[0].value) in ("Pow(expanded, self.exponent)", "Pow(expanded, exponent)") and (
        U(pw[0].value).endswith("self.exponent)") or (len(ex) == 1 and U(ex[0].value) == "self.exponent"))
    ctx.check(rule, ob, ok, "expanded definition raised to the object's exponent", "exponent of an expanded intermediate lost",
              key="Obj.expand_intermediates exponent")
    # a definition with summation indices must be expanded once per factor (fresh indices each time)
    guarded = bool(pw) and any((not pol) and "exponent > 1" in t for t, pol in conditions(pw[0]))
    rep = [c for c in calls_in(ob) if call_name(c) == "Mul" and c.args and isinstance(c.args[0], ast.Starred)
           and isinstance(c.args[0].value, (ast.ListComp, ast.GeneratorExp)) and call_name(c.args[0].value.elt) == "expand_itmd"
           and "range(" in U(c.args[0].value.generators[0].iter) and "exponent" in U(c.args[0].value.generators[0].iter)]
    ctx.check(rule, ob, guarded and len(rep) == 1, "exponent n > 1: product of n separate expansions (fresh contracted indices each)",
              "an intermediate with exponent n > 1 is expanded once and raised to the power n: all factors share the contracted indices "
              "of the definition (each summation index occurs 2n times)", key="Obj.expand_intermediates fresh")
    call = [c for c in calls_in(ob) if call_name(c) == "expand_itmd"]
    ok = len(call) >= 1 and all({k.arg: U(k.value) for k in c.keywords} == {"indices": "self.idx", "return_sympy": "True",
                                                                          "fully_expand": "fully_expand"} for c in call)
    ctx.check(rule, ob, ok, "definition expanded on the object's indices", "expand_itmd arguments changed", key="Obj.expand_intermediates call")


def r13e(ctx):
    rule = "R13e"
    fn = ctx.model.fn(EC + "Term.split_orb_energy")
    keys = {}
    for a in walk_fn(fn):
        if isinstance(a, ast.Assign) and U(a.targets[0]) == "key":
            cs = conditions(a)
            k = "number" if ("o.sympy.is_number", True) in cs else "orb" if ("o.contains_only_orb_energies", True) in cs else "other"
            keys[k] = U(a.value)
    ctx.check(rule, fn, keys == {"number": "'num'", "orb": "'denom' if exponent < 0 else 'num'", "other": "'remainder'"},
              "numbers -> num; orbital energies -> denom iff negative exponent; rest -> remainder", f"classification {keys}", key="split keys")
    mul = [n for n in walk_fn(fn) if isinstance(n, ast.AugAssign) and U(n.target) == "ret[key]"]
    ok = len(mul) == 1 and isinstance(mul[0].op, ast.Mult) and U(mul[0].value).replace(" ", "") == "Pow(base,abs(exponent))" \
        and mul[0]._parent is enclosing(mul[0], ast.For)
    ctx.check(rule, fn, ok, "every object multiplied into exactly one part as base**|exponent|", "split accumulation changed", key="split mul")
    be = [a for a in walk_fn(fn) if isinstance(a, ast.Assign) and U(a.targets[0]) == "(base, exponent)"]
    ctx.check(rule, fn, len(be) == 1 and U(be[0].value) == "o.base_and_exponent", "base/exponent of the object", "changed", key="split be")
    oo = ctx.model.fn(EC + "Obj.contains_only_orb_energies")
    r = common.returns_of(oo)
    ctx.check(rule, oo, U(r[0].value) == "self.name == tensor_names.orb_energy and len(self.idx) == 1", "orbital energy = e with one index",
              "orbital-energy test changed", key="only orb")
    ex = ctx.model.fn(EO + "expr")
    r = common.returns_of(ex)
    v = r[0].value

    def parts(n, sign=1):
        if isinstance(n, ast.BinOp) and isinstance(n.op, ast.Mult):
            return parts(n.left, sign) + parts(n.right, sign)
        if isinstance(n, ast.BinOp) and isinstance(n.op, ast.Div):
            return parts(n.left, sign) + parts(n.right, -sign)
        return [(U(n), sign)]
    got = sorted(parts(v))
    ctx.check(rule, ex, got == sorted([("self.num", 1), ("self.eri", 1), ("self.denom", -1), ("self.pref", 1)]),
              "num * eri / denom * pref", f"term rebuilt as {got}", key="rebuild")
    for name, lst in (("cancel_denom_brackets", "denom"), ("cancel_eri_objects", "objects")):
        f = ctx.model.fn(EO + name)
        ifs = [n for n in walk_fn(f) if isinstance(n, ast.If) and "new_exp" in U(n.test)]
        ok = len(ifs) == 1 and U(ifs[0].test).replace(" ", "").replace("(", "").replace(")", "") == "new_exp:=exponent-n==0" \
            and U(ifs[0].body[0]) == f"{lst}[idx] = None" and U(ifs[0].orelse[0]).replace(" ", "") == f"{lst}[idx]=Pow(base,new_exp)"
        ctx.check(rule, f, ok, f"{name}: exponent lowered by the multiplicity, dropped at 0", f"{name}: exponent bookkeeping changed", key=name)
        lp = [n for n in walk_fn(f) if isinstance(n, ast.For)]
        ctx.check(rule, f, bool(lp) and "Counter(" in U(lp[0].iter) and ".items()" in U(lp[0].iter), f"{name}: multiplicity from Counter",
                  f"{name}: multiplicity source changed", key=f"{name} counter")
    init = ctx.model.fn(EO + "__init__")
    pf = [a for a in walk_fn(init) if isinstance(a, ast.Assign) and U(a.targets[0]) == "self._pref"]
    ctx.check(rule, init, len(pf) == 1 and U(pf[0].value) == "min([t.prefactor for t in term['num'].terms], key=abs)",
              "prefactor = smallest |prefactor| of the numerator", "prefactor extraction changed", key="pref")
    nm = {}
    for a in walk_fn(init):
        if isinstance(a, ast.Assign) and U(a.targets[0]) == "self._num":
            nm[U(a.value)] = True
    ctx.check(rule, init, set(nm) == {"term['num']", "factor_and_remove_number(term['num'], self._pref)"},
              "numerator divided by the extracted prefactor", f"numerator variants {sorted(nm)}", key="num")
    far = ctx.model.fn("eri_orbenergy:factor_and_remove_number")
    body = [U(s) for s in common.strip_docstring(far.body)]
    ctx.check(rule, far, body == ["expr.factor(num=number)", "expr /= number", "expr.doit()",
                                  "expr._expr = nsimplify(expr.sympy, rational=True)", "return expr"],
              "factor the number, divide by it", f"factor_and_remove_number body {body}", key="factor number")


def r13f(ctx):
    rule = "R13f"
    fn = ctx.model.fn(EC + "Obj.block_diagonalize_fock")
    vals = {}
    for a in walk_fn(fn):
        if isinstance(a, ast.Assign) and U(a.targets[0]) == "bl_diag":
            cs = conditions(a)
            keep = any(pol and t.replace(" ", "") in ("space[0]==space[1]or'g'inspace", "'g'inspaceorspace[0]==space[1]") for t, pol in cs)
            drop = ("space[0] == space[1]", False) in cs and ("'g' in space", False) in cs
            k = "other" if ("self.name == tensor_names.fock", False) in cs else "diag" if keep else "offdiag" if drop else "?"
            vals[k] = U(a.value)
    ctx.check(rule, fn, vals == {"other": "self.sympy", "diag": "self.sympy", "offdiag": "0"},
              "exactly fock objects with two different specific spaces (ov/vo) are zeroed; general indices keep the element",
              f"block-diagonalisation table {vals}: an element is zero only if both indices have specific and different spaces "
              "(f_ip with a general index contains the diagonal block f_ij)", key="block diag")
    fn = ctx.model.fn(EC + "Obj.diagonalize_fock")
    sub = {}
    for a in walk_fn(fn, nested=False):
        if isinstance(a, ast.Assign) and isinstance(a.targets[0], ast.Subscript) and U(a.targets[0].value) == "sub":
            cs = conditions(a)
            k = "p survived" if ("p is remaining_idx", True) in cs else "q survived" if ("p is remaining_idx", False) in cs else "?"
            sub[k] = (U(a.targets[0].slice), U(a.value))
    ctx.check(rule, fn, sub == {"p survived": ("q", "p"), "q survived": ("p", "q")}, "the index that did not survive is replaced by the survivor",
              f"substitution table {sub}", key="diag sub")
    dg = [a for a in walk_fn(fn, nested=False) if isinstance(a, ast.Assign) and U(a.targets[0]) == "diag"]
    ok = len(dg) == 1 and U(dg[0].value).replace(" ", "").replace("\n", "") == "Pow(NonSymmetricTensor(tensor_names.orb_energy,(remaining_idx,)),self.exponent)"
    ctx.check(rule, fn, ok, "f_pq -> e_p with the exponent kept", "orbital energy replacement changed", key="diag energy")
    ev = [c for c in calls_in(fn) if call_name(c) == "evaluate_deltas"]
    ok = len(ev) == 1 and U(ev[0].args[0]) == "self.sympy * delta" and U(kwarg(ev[0], "target_idx", 1)) == "target"
    ctx.check(rule, fn, ok, "delta evaluated with the term's targets", "evaluate_deltas call changed", key="diag delta")
    dl = [a for a in common.assigns_to(fn, "delta")]
    ctx.check(rule, fn, len(dl) == 1 and U(dl[0].value) == "KroneckerDelta(p, q)", "delta between the two fock indices", "delta changed",
              key="diag delta build")
    rets = {}
    for r in common.returns_of(fn, nested=False):
        cs = conditions(r)
        k = "notfock" if ("self.name == tensor_names.fock", False) in cs else "zero" if ("delta is S.Zero", True) in cs else \
            "one" if ("delta is S.One", True) in cs else "noeval" if ("isinstance(result, Mul)", True) in cs else "done"
        rets[k] = U(r.value)
    ctx.check(rule, fn, rets == {"notfock": "pack_result(self.sympy, {}, target)", "zero": "pack_result(delta, {}, target)",
                                 "one": "pack_result(self.sympy, {}, target)", "noeval": "pack_result(self.sympy, {}, target)",
                                 "done": "pack_result(diag, sub, target)"},
              "off-diagonal block 0; diagonal element / unevaluable delta kept", f"return table {rets}", key="diag returns")
    t = ctx.model.fn(EC + "Term.diagonalize_fock")
    ra = [n for n in walk_fn(t) if isinstance(n, ast.Raise)]
    ok = any(("any((k in sub and sub[k] != v for k, v in sub_obj.items()))", True) in conditions(n) for n in ra)
    ctx.check(rule, t, ok, "conflicting substitutions refused", "conflict check changed", key="diag conflict")
    mul = [n for n in walk_fn(t) if isinstance(n, ast.AugAssign) and U(n.target) == "diag"]
    ctx.check(rule, t, len(mul) == 1 and isinstance(mul[0].op, ast.Mult) and U(mul[0].value) == "diag_obj", "every object multiplied back",
              "product rebuild changed", key="diag product")
    ch = [n for n in walk_fn(t) if isinstance(n, ast.While) and U(n.test) == "new in sub"]
    ok = len(ch) == 1 and U(ch[0].body[0]) == "new = sub[new]" and isinstance(ch[0]._parent, ast.For) and U(ch[0]._parent.iter) == "sub.items()" \
        and any(U(x) == "sub[old] = new" for x in ch[0]._parent.body)
    ctx.check(rule, t, ok, "chains of substitutions (f_ij f_jk) are resolved transitively before the simultaneous substitution",
              "the substitutions collected from several Fock elements are applied simultaneously without resolving chains: for "
              "f_ij f_jk the index k is replaced by j instead of i", key="diag chains")
    upd = [c for c in calls_in(t) if call_name(c) == "update" and U(c.func.value) == "sub"]
    ctx.check(rule, t, len(upd) == 1 and U(upd[0].args[0]) == "sub_obj", "substitutions collected", "substitution collection changed",
              key="diag collect")
    tg = [a for a in walk_fn(t) if isinstance(a, ast.Assign) and U(a.targets[0]) == "assumptions['target_idx']"]
    ctx.check(rule, t, len(tg) == 1 and U(tg[0].value) == "target", "targets set on the result", "target bookkeeping changed", key="diag targets")
    e_ = ctx.model.fn(EC + "Expr.diagonalize_fock")
    lp = [n for n in walk_fn(e_) if isinstance(n, ast.For) and U(n.iter) == "self.terms"]
    ok = len(lp) == 1 and len(lp[0].body) == 1 and U(lp[0].body[0]) == f"diag += {U(lp[0].target)}.diagonalize_fock()"
    ctx.check(rule, e_, ok, "every term diagonalised and added once", "Expr.diagonalize_fock loop changed", key="diag expr")
    tg = [a for a in walk_fn(e_) if isinstance(a, ast.Assign) and U(a.targets[0]) == "self._target_idx"]
    ctx.check(rule, e_, len(tg) == 1 and U(tg[0].value) == "diag.provided_target_idx", "targets kept", "targets of the result changed",
              key="diag expr targets")


def r13g(ctx):
    rule = "R13g"
    for name, add in (("factor_eri_parts", "temp += terms[other_i].subs(sub)"), ("factor_denom", "temp += terms[other_i].permute(*perms)")):
        fn = ctx.model.fn(f"reduce_expr:{name}")
        lp = [n for n in walk_fn(fn) if isinstance(n, ast.For) and n._parent is fn]
        ok = len(lp) == 1
        if ok:
            body = [U(s) for s in lp[0].body]
            ok = body[0] == "temp = e.Expr(terms[i].sympy, **expr.assumptions)" and add in body[1] and body[-1] == "ret.append(temp)"
        ctx.check(rule, fn, ok, f"{name}: key term once, every matched term once, transformed", f"{name}: bookkeeping changed", key=name)
        r1 = [r for r in common.returns_of(fn) if ("len(expr) == 1", True) in conditions(r)]
        ctx.check(rule, fn, len(r1) == 1 and U(r1[0].value) == "[expr]", f"{name}: single term unchanged", f"{name}: trivial case changed",
                  key=f"{name} trivial")
    fe = ctx.model.fn("reduce_expr:find_compatible_eri_parts")
    g = [n for n in walk_fn(fe) if isinstance(n, ast.If) and "contains_only_orb_energies" in U(n.test)]
    ok = len(g) == 1 and U(g[0].test) == "not o.sympy.is_number and (not o.contains_only_orb_energies)" and U(g[0].body[0]) == "eris *= o"
    ctx.check(rule, fe, ok, "ERI part = everything but numbers and orbital energies", "ERI part selection changed", key="eri part")
    tg = [a for a in walk_fn(fe) if isinstance(a, ast.Assign) and U(a.targets[0]) == "assumptions['target_idx']"]
    ctx.check(rule, fe, len(tg) == 1 and U(tg[0].value) == "term.target", "targets of the full term protect the ERI part",
              "targets of the ERI part changed", key="eri targets")
    rd = ctx.model.fn("reduce_expr:reduce_expr")
    g = [n for n in walk_fn(rd) if isinstance(n, ast.Raise) and any("sub_equal_eri.sympy is S.Zero" in t and pol for t, pol in conditions(n))]
    ctx.check(rule, rd, len(g) == 1, "substitution that annihilates a term is refused", "zero guard removed", key="zero guard")
    acc = [n for n in walk_fn(rd) if isinstance(n, ast.AugAssign) and U(n.target) in ("factored", "result", "temp")]
    got = sorted((U(n.target), U(n.value)) for n in acc)
    ctx.check(rule, rd, got == [("factored", "term"), ("result", "term.factor()"), ("temp", "expanded_expr[other_i].subs(sub)")],
              "every sub-expression added once in each stage", f"accumulations {got}", key="stages")
    ex = [c for c in calls_in(rd) if call_name(c) == "extend" and U(c.func.value) == "expanded_expr"]
    ctx.check(rule, rd, len(ex) == 1 and U(ex[0].args[0]) == "term", "all ERI classes of every term collected", "collection changed",
              key="collect")


def r13h(ctx):
    """bookkeeping of EriOrbenergy.cancel_orb_energy_frac.cancel"""
    rule = "R13h"
    fn = ctx.model.fn(EO + "cancel_orb_energy_frac.cancel")
    loops = [n for n in fn.body if isinstance(n, ast.For)]
    if len(loops) != 1:
        raise AnalysisError("cancel: bracket loop not found")
    lp = loops[0]
    a = {}
    for x in walk_fn(fn):
        if isinstance(x, ast.AugAssign):
            a.setdefault(U(x.target), []).append((type(x.op).__name__, " ".join(U(x.value).split()), x))
        elif isinstance(x, ast.Assign):
            a.setdefault(U(x.targets[0]), []).append(("=", " ".join(U(x.value).split()), x))
    # running prefactor
    pm = [t for t in a.get("pref", []) if t[0] == "Mult"]
    ok = len(pm) == 1 and pm[0][1] == "min_pref" and ("min_pref is S.One", False) in conditions(pm[0][2])
    ctx.check(rule, fn, ok, "factor pulled out of the numerator is accumulated in the running prefactor",
              "`pref *= min_pref` (under min_pref != 1) is missing: the factor removed from the numerator is lost for the later "
              "brackets", key="pref accumulate")
    nm = [t for t in a.get("num", []) if t[1] == "factor_and_remove_number(num, min_pref)"]
    ctx.check(rule, fn, len(nm) == 1 and pm and nm[0][2]._parent is pm[0][2]._parent, "numerator divided by the same factor",
              "numerator is not divided by the factor moved to the prefactor", key="num divide")
    sub = [t for t in a.get("num", []) if t[0] == "Sub"]
    ctx.check(rule, fn, len(sub) == 1 and sub[0][1] == "base", "cancelled bracket subtracted from the numerator", "numerator update changed",
              key="num subtract")
    adds = [t for t in a.get("cancelled_result", []) if t[0] == "Add"]
    vals = sorted(t[1] for t in adds)
    want_main = "pref * self.eri / multiply(new_denom)"
    want_left = "pref * self.eri * num / multiply(denom)"
    ctx.check(rule, fn, want_main in vals, "cancelled part: running pref * eri / (denominator without the bracket)",
              f"contribution of a cancelled bracket is {vals}; it must use the running prefactor `pref` (not self.pref) and the "
              "denominator without the cancelled bracket", key="cancelled part")
    ctx.check(rule, fn, all(v in (want_main, want_left) for v in vals), "only the two documented contributions are added",
              f"unexpected contribution {[v for v in vals if v not in (want_main, want_left)]}", key="contributions")
    # the leftover numerator must be added on every way out of the loop
    left = [t[2] for t in adds if t[1] == want_left]
    in_break = [x for x in left if any(isinstance(s2, ast.Break) for s2 in getattr(x._parent._parent, "body", []))
                or any(isinstance(s2, ast.Break) for s2 in getattr(x._parent, "body", []))]
    after = [x for x in left if any(x is y for st in lp.orelse for y in ast.walk(st))] + \
        [x for x in left if x.lineno > lp.end_lineno]
    ctx.check(rule, lp, bool(in_break), "numerator reduced to a number: remainder added, loop left", "number remainder handling changed",
              key="leftover number")
    ctx.check(rule, lp, bool(after), "all brackets tried: the part of the numerator that is left is added over the full denominator",
              "when the loop over the brackets ends without `break`, the leftover (non-constant) numerator over the full denominator is "
              "never added: a part of the term is dropped", key="leftover after loop")
    nd = {t[1] for t in a.get("new_denom", [])} | {t[1] for t in a.get("new_denom[bracket_i]", [])}
    ctx.check(rule, fn, nd == {"denom[:bracket_i] + denom[bracket_i + 1:]", "denom[:]", "e.Expr(Pow(base, exponent - 1), **bracket.assumptions)"},
              "bracket exponent lowered by one / bracket removed", f"new denominator built as {sorted(nd)}", key="new denom")
    sk = [n for n in walk_fn(lp) if isinstance(n, ast.Continue)]
    ctx.check(rule, lp, len(sk) == 1 and U(sk[0]._parent.test) == "len(relevant_prefs) != len(bracket_indices)",
              "a bracket is cancelled only if all its orbital energies occur in the numerator", "bracket applicability test changed",
              key="applicable")
    r = common.returns_of(fn)
    ctx.check(rule, fn, U(r[-1].value) == "self.expr if cancelled_result is None else cancelled_result", "nothing cancelled: term unchanged",
              "return of cancel changed", key="return")
    top = ctx.model.fn(EO + "cancel_orb_energy_frac")
    c = [x for x in calls_in(top, nested=False) if call_name(x) == "cancel"]
    ctx.check(rule, top, len(c) == 1 and [U(z) for z in c[0].args] == ["self.num", "denom", "self.pref"], "cancel(num, sorted brackets, pref)",
              "cancel arguments changed", key="cancel args")
    cs = [x for x in calls_in(top, nested=False) if call_name(x) == "canonicalize_sign"]
    ctx.check(rule, top, len(cs) == 1 and cs[0].lineno < c[0].lineno if c else False, "signs canonicalised before cancelling",
              "sign canonicalisation missing", key="sign first")


def run(ctx):
    if ctx.want("R13h"):
        r13h(ctx)
    for r, f in (("R13a", r13a), ("R13b", r13b), ("R13c", r13c), ("R13d", r13d), ("R13e", r13e), ("R13f", r13f),
                 ("R13g", r13g)):
        if ctx.want(r):
            f(ctx)
