F = "func.py"
WITNESSES = [
    dict(id="c01-table-general", prop="C01", file=F, expect="R01a",
         old="""        elif space_p == "v" or space_q == "v":
            return KroneckerDelta(p_idx, q_idx)
        else:
            return (KroneckerDelta(p_idx, q_idx) *
                    KroneckerDelta(q_idx, Index('a', above_fermi=True)))""",
         new="""        else:
            return KroneckerDelta(p_idx, q_idx)"""),
    dict(id="c01-table-swap-fermi", prop="C01", file=F, expect="R01a",
         old="KroneckerDelta(q_idx, Index('i', below_fermi=True))",
         new="KroneckerDelta(q_idx, Index('i', above_fermi=True))"),
    dict(id="c01-table-and", prop="C01", file=F, expect="R01a",
         old="""        if space_p == "v" or space_q == "v":
            return S.Zero""",
         new="""        if space_p == "v" and space_q == "v":
            return S.Zero"""),
    dict(id="c01-spin-guard", prop="C01", file=F, expect="R01a",
         old="if p.state.spin or q.state.spin:", new="if p.state.spin and q.state.spin:"),
    dict(id="c01-sign-inverted", prop="C01", file=F, expect="R01b",
         old="if not i % 2:  # introduce", new="if i % 2:  # introduce"),
    dict(id="c01-remaining-off", prop="C01", file=F, expect="R01b",
         old="remaining = op_string[1:i] + op_string[i+1:]",
         new="remaining = op_string[1:i] + op_string[i:]"),
    dict(id="c01-range-short", prop="C01", file=F, expect="R01b",
         old="for i in range(1, len(op_string)):", new="for i in range(1, len(op_string) - 1):"),
    dict(id="c01-prefilter-general", prop="C01", file=F, expect="R01c",
         old='n_annihilate = annihilate[space] + annihilate["general"]',
         new='n_annihilate = annihilate[space]'),
    dict(id="c01-prefilter-ge", prop="C01", file=F, expect="R01c",
         old="if n_create - n_annihilate > 0:", new="if n_create - n_annihilate >= 0:"),
    dict(id="c01-rules-name-only", prop="C01", file="rules.py", expect="R01d",
         old="""            if any(obj.name in self._forbidden_blocks
                   and obj.space in self._forbidden_blocks[obj.name]
                   for obj in term.objects):""",
         new="""            if any(obj.name in self._forbidden_blocks
                   for obj in term.objects):"""),
    dict(id="c01-rules-all", prop="C01", file="rules.py", expect="R01d",
         old="            if any(obj.name in self._forbidden_blocks", new="            if all(obj.name in self._forbidden_blocks"),
    dict(id="c01-wicks-cpart-dropped", prop="C01", file=F, expect="R01d",
         old="result = (Mul(*c_part) * result).expand()", new="result = result.expand()"),
    dict(id="c01-f11-revert", prop="C01", file=F, expect="R01d",
         old="    else:  # neither add, Mul, NO or Operator -> maybe a number or a tensor\n        result = expr",
         new="    else:  # neither add, Mul, NO or Operator -> maybe a number or a tensor\n        return expr"),
    dict(id="c01-remove-by-value", prop="C01", file=F, expect="R01b",
         old="            remaining = op_string[1:i] + op_string[i+1:]",
         new="            remaining = list(op_string[1:])\n            remaining.remove(op_string[i])"),
    # behaviour preserving
    dict(id="c01-ok-rename", prop="C01", file=F, expect=None,
         old="""        c = _contraction(op_string[0], op_string[i])
        if c is S.Zero:
            continue
        if not i % 2:  # introduce -1 for swapping operators
            c *= S.NegativeOne""",
         new="""        contr = _contraction(op_string[0], op_string[i])
        if contr is S.Zero:
            continue
        if i % 2 == 0:
            contr = contr * S.NegativeOne
        c = contr"""),
    dict(id="c01-ok-table-reorder", prop="C01", file=F, expect=None,
         old="""        if space_p == "o" or space_q == "o":
            return S.Zero
        elif space_p == "v" or space_q == "v":
            return KroneckerDelta(p_idx, q_idx)""",
         new="""        if "o" in (space_p, space_q):
            return S.Zero
        elif space_q == "v" or space_p == "v":
            return KroneckerDelta(q_idx, p_idx)"""),
    dict(id="c01-ok-rules-loop", prop="C01", file="rules.py", expect=None,
         old="""            if any(obj.name in self._forbidden_blocks
                   and obj.space in self._forbidden_blocks[obj.name]
                   for obj in term.objects):
                continue
            res += term""",
         new="""            forbidden = any(obj.name in self._forbidden_blocks
                            and obj.space in self._forbidden_blocks[obj.name]
                            for obj in term.objects)
            if not forbidden:
                res += term"""),
    # ---- breaking witnesses for the checks introduced with the semantic re-foundation
    dict(id="c01-contraction-args-swapped", prop="C01", file=F, expect=["R01b", "R01e"],
         old="c = _contraction(op_string[0], op_string[i])", new="c = _contraction(op_string[i], op_string[0])"),
    dict(id="c01-opstring-reversed", prop="C01", file=F, expect=["R01d", "R01e"],
         old="                op_string.append(factor)", new="                op_string.insert(0, factor)"),
    dict(id="c01-fresh-index-unrestricted", prop="C01", file=F, expect="R01a",
         old="KroneckerDelta(q_idx, Index('a', above_fermi=True))", new="KroneckerDelta(q_idx, Index('a'))"),
    dict(id="c01-fresh-delta-only", prop="C01", file=F, expect="R01a",
         old="""            return (KroneckerDelta(p_idx, q_idx) *
                    KroneckerDelta(q_idx, Index('i', below_fermi=True)))""",
         new="""            return KroneckerDelta(q_idx, Index('i', below_fermi=True))"""),
    dict(id="c01-zero-break", prop="C01", file=F, expect="R01b",
         old="""        if c is S.Zero:
            continue""",
         new="""        if c is S.Zero:
            break"""),
    dict(id="c01-e2e-prefilter-substring", prop="C01", file=F, expect="R01e",
         old="    if not _has_fully_contracted_contribution(op_string):",
         new="    if not _has_fully_contracted_contribution(op_string[1:]):"),
    dict(id="c01-rules-assumptions-lost", prop="C01", file="rules.py", expect="R01d",
         old="res = e.Expr(0, **expr.assumptions)", new="res = e.Expr(0)"),
    dict(id="c01-rules-inverted", prop="C01", file="rules.py", expect="R01d",
         old="            if any(obj.name in self._forbidden_blocks", new="            if not any(obj.name in self._forbidden_blocks"),
    dict(id="c01-rules-term-twice", prop="C01", file="rules.py", expect="R01d",
         old="            res += term", new="            res += term\n            res += term"),
    dict(id="c01-rules-guard-removed", prop="C01", file="rules.py", expect="R01d",
         old="        if not isinstance(expr, e.Expr):\n            raise TypeError(f\"Expression needs to be provided as {e.Expr}\")\n",
         new=""),
    dict(id="c01-rules-empty-none-only", prop="C01", file="rules.py", expect="R01d",
         old="return not bool(self._forbidden_blocks)", new="return self._forbidden_blocks is None"),
    dict(id="c01-wicks-flag-ignored", prop="C01", file=F, expect="R01d",
         old="            if simplify_kronecker_deltas:\n                result = evaluate_deltas(result)",
         new="            result = evaluate_deltas(result)"),
    dict(id="c01-wicks-deltas-after-rules", prop="C01", file=F, expect="R01d",
         edits=[("            if simplify_kronecker_deltas:\n                result = evaluate_deltas(result)\n", ""),
                ("    return rules.apply(Expr(result)).sympy",
                 "    result = rules.apply(Expr(result)).sympy\n    if simplify_kronecker_deltas:\n"
                 "        result = evaluate_deltas(result)\n    return result")]),
    dict(id="c01-wicks-doit-plain", prop="C01", file=F, expect="R01d",
         old="expr = expr.doit(wicks=True).expand()", new="expr = expr.doit().expand()"),
    dict(id="c01-wicks-add-drops-rules", prop="C01", file=F, expect="R01d",
         old="        return Add(*[wicks(term, rules=rules,\n                           simplify_kronecker_deltas=simplify_kronecker_deltas)",
         new="        return Add(*[wicks(term,\n                           simplify_kronecker_deltas=simplify_kronecker_deltas)"),
    dict(id="c01-wicks-add-skips-first", prop="C01", file=F, expect="R01d",
         old="                     for term in expr.args])", new="                     for term in expr.args[1:]])"),
    dict(id="c01-wicks-rules-real", prop="C01", file=F, expect="R01d",
         old="return rules.apply(Expr(result)).sympy", new="return rules.apply(Expr(result, real=True)).sympy"),
    dict(id="c01-wicks-target-idx", prop="C01", file=F, expect="R01d",
         old="                result = evaluate_deltas(result)", new="                result = evaluate_deltas(result, '')"),
    dict(id="c01-wicks-cpart-twice", prop="C01", file=F, expect="R01d",
         old="result = (Mul(*c_part) * result).expand()", new="result = (Mul(*c_part) * Mul(*c_part) * result).expand()"),
    # ---- behaviour preserving, kinds not in the refactoring corpus
    # table-driven dispatch instead of an if-tree
    dict(id="c01-ok-table-driven", prop="C01", file=F, expect=None,
         old="""    if isinstance(p, F) and isinstance(q, Fd):
        if space_p == "o" or space_q == "o":
            return S.Zero
        elif space_p == "v" or space_q == "v":
            return KroneckerDelta(p_idx, q_idx)
        else:
            return (KroneckerDelta(p_idx, q_idx) *
                    KroneckerDelta(q_idx, Index('a', above_fermi=True)))
    elif isinstance(p, Fd) and isinstance(q, F):
        if space_p == "v" or space_q == "v":
            return S.Zero
        elif space_p == "o" or space_q == "o":
            return KroneckerDelta(p_idx, q_idx)
        else:
            return (KroneckerDelta(p_idx, q_idx) *
                    KroneckerDelta(q_idx, Index('i', below_fermi=True)))
    else:  # vanish if 2xAnnihilator or 2xCreator
        return S.Zero""",
         new="""    table = {(True, False): ("o", "v", "a", {"above_fermi": True}),
             (False, True): ("v", "o", "i", {"below_fermi": True})}
    entry = table.get((isinstance(p, F), isinstance(q, F)))
    if entry is None or isinstance(p, F) == isinstance(p, Fd) or isinstance(q, F) == isinstance(q, Fd):
        return S.Zero
    killed, kept, fresh_name, fresh_assumptions = entry
    spaces = (space_p, space_q)
    if killed in spaces:
        return S.Zero
    contraction = KroneckerDelta(p_idx, q_idx)
    if kept not in spaces:
        contraction = contraction * KroneckerDelta(q_idx, Index(fresh_name, **fresh_assumptions))
    return contraction"""),
    # algebraically equal expression: factors commuted, delta arguments swapped, the projector on the other index
    dict(id="c01-ok-delta-algebra", prop="C01", file=F, expect=None,
         old="""            return (KroneckerDelta(p_idx, q_idx) *
                    KroneckerDelta(q_idx, Index('a', above_fermi=True)))""",
         new="""            return (KroneckerDelta(Index('a', above_fermi=True), p_idx) *
                    KroneckerDelta(q_idx, p_idx))"""),
    # loop-carried sign instead of the parity of the loop index
    dict(id="c01-ok-running-sign", prop="C01", file=F, expect=None,
         old="""    for i in range(1, len(op_string)):
        c = _contraction(op_string[0], op_string[i])
        if c is S.Zero:
            continue
        if not i % 2:  # introduce -1 for swapping operators
            c *= S.NegativeOne
""",
         new="""    sign = S.NegativeOne
    for i in range(1, len(op_string)):
        sign = -sign
        c = sign * _contraction(op_string[0], op_string[i])
        if c is S.Zero:
            continue
"""),
    # remaining operators selected by an index filter instead of two slices
    dict(id="c01-ok-remaining-filter", prop="C01", file=F, expect=None,
         old="remaining = op_string[1:i] + op_string[i+1:]",
         new="remaining = [op for pos, op in enumerate(op_string) if pos not in (0, i)]"),
    # running sum instead of collecting the summands for Add(*..)
    dict(id="c01-ok-running-sum", prop="C01", file=F, expect=None,
         edits=[("    result = []\n    for i in range(1, len(op_string)):", "    result = S.Zero\n    for i in range(1, len(op_string)):"),
                ("            result.append(c * _contract_operator_string(remaining))",
                 "            result += c * _contract_operator_string(remaining)"),
                ("            result.append(c)\n    return Add(*result)", "            result += c\n    return result")]),
    # other data structure and a closed formula in the prefilter
    dict(id="c01-ok-prefilter-keyed-counts", prop="C01", file=F, expect=None,
         old="""    create = {space: 0 for space in Indices.base.keys()}
    annihilate = {space: 0 for space in Indices.base.keys()}
    for op in op_string:
        if isinstance(op, Fd):
            counter = create
        else:
            counter = annihilate
        counter[op.args[0].space] += 1
    # check that we have a matching amount of creation and annihilation
    # operators
    for space, n_create in create.items():
        if space == "general":
            continue
        n_annihilate = annihilate[space] + annihilate["general"]
        if n_create - n_annihilate > 0:
            return False
    return True""",
         new="""    counts = {}
    for op in op_string:
        key = (isinstance(op, Fd), op.args[0].space)
        counts[key] = counts.get(key, 0) + 1
    n_general = counts.get((False, "general"), 0)
    return all(counts.get((True, space), 0) <= counts.get((False, space), 0) + n_general
               for space in Indices.base if space != "general")"""),
    # forbidden (name, block) pairs collected once (the correct version of the optimisation seeded as C01-1)
    dict(id="c01-ok-rules-pair-set", prop="C01", file="rules.py", expect=None,
         old="""        res = e.Expr(0, **expr.assumptions)
        for term in expr.terms:
            # remove the forbidden blocks of tensors
            if any(obj.name in self._forbidden_blocks
                   and obj.space in self._forbidden_blocks[obj.name]
                   for obj in term.objects):
                continue
            res += term
        return res""",
         new="""        forbidden = {(name, block) for name, blocks in self._forbidden_blocks.items() for block in blocks}
        kept = [term for term in expr.terms
                if not any((obj.name, obj.space) in forbidden for obj in term.objects)]
        res = e.Expr(0, **expr.assumptions)
        for term in kept:
            res += term
        return res"""),
    dict(id="c01-ok-is-empty-explicit", prop="C01", file="rules.py", expect=None,
         old="return not bool(self._forbidden_blocks)",
         new="return self._forbidden_blocks is None or len(self._forbidden_blocks) == 0"),
    # wicks: explicit accumulation for Add, partition by two comprehensions, Mul flattening, reordered exits
    dict(id="c01-ok-wicks-restructured", prop="C01", file=F, expect=None,
         edits=[("""        return Add(*[wicks(term, rules=rules,
                           simplify_kronecker_deltas=simplify_kronecker_deltas)
                     for term in expr.args])""",
                 """        total = S.Zero
        for term in expr.args:
            total += wicks(term, rules, simplify_kronecker_deltas)
        return total"""),
                ("""        c_part = []
        op_string = []
        for factor in expr.args:
            if factor.is_commutative:
                c_part.append(factor)
            else:
                op_string.append(factor)
""",
                 """        c_part = [factor for factor in expr.args if factor.is_commutative]
        op_string = [factor for factor in expr.args if not factor.is_commutative]
"""),
                ("result = (Mul(*c_part) * result).expand()", "result = Mul(*c_part, result).expand()"),
                ("""    if rules is None:
        return result
    elif not isinstance(rules, Rules):
        raise TypeError(f"Rules needs to be of type {Rules}")

    return rules.apply(Expr(result)).sympy""",
                 """    if rules is not None:
        if not isinstance(rules, Rules):
            raise TypeError(f"Rules needs to be of type {Rules}")
        restricted = rules.apply(Expr(result))
        result = restricted.sympy
    return result""")]),
    # spaces compared by their full names
    dict(id="c01-ok-full-space-names", prop="C01", file=F, expect=None,
         edits=[("""    space_p, space_q = p_idx.space[0], q_idx.space[0]
    assert space_p in ["o", "v", "g"] and space_q in ["o", "v", "g"]""",
                 """    space_p, space_q = {"occ": "o", "virt": "v", "general": "g"}[p_idx.space], q_idx.space[:1]
    assert {space_p, space_q} <= set("ovg")""")]),
    # the dual counting criterion (creators and annihilators exchanged) is a necessary condition as well: the
    # prefilter answers differently on some strings, never False for a string with a complete contraction
    dict(id="c01-ok-prefilter-dual", prop="C01", file=F, expect=None,
         old="        if isinstance(op, Fd):\n            counter = create", new="        if isinstance(op, F):\n            counter = create"),
    # sign applied before the zero test, zero test by value
    dict(id="c01-ok-zero-via-mul", prop="C01", file=F, expect=None,
         old="""        if c is S.Zero:
            continue
        if not i % 2:  # introduce -1 for swapping operators
            c *= S.NegativeOne""",
         new="""        if not i % 2:  # introduce -1 for swapping operators
            c = -c
        if c == 0:
            continue"""),
    # for/else with try/except instead of any(..)
    dict(id="c01-ok-rules-try-for-else", prop="C01", file="rules.py", expect=None,
         old="""            if any(obj.name in self._forbidden_blocks
                   and obj.space in self._forbidden_blocks[obj.name]
                   for obj in term.objects):
                continue
            res += term""",
         new="""            for obj in term.objects:
                try:
                    blocks = self._forbidden_blocks[obj.name]
                except KeyError:
                    continue
                if obj.space in blocks:
                    break
            else:
                res += term"""),
    # early exit when the contraction vanishes (zero needs no rules)
    dict(id="c01-ok-wicks-early-zero", prop="C01", file=F, expect=None,
         old="            result = _contract_operator_string(op_string)\n",
         new="            result = _contract_operator_string(op_string)\n            if result is S.Zero:\n                return S.Zero\n"),
    # starred unpacking and a while loop
    dict(id="c01-ok-first-rest-while", prop="C01", file=F, expect=None,
         old="    result = []\n    for i in range(1, len(op_string)):\n        c = _contraction(op_string[0], op_string[i])",
         new="    result = []\n    first, *rest = op_string\n    i = 0\n    while i < len(rest):\n        i += 1\n"
             "        c = _contraction(first, rest[i - 1])"),
    # the Fd/F row tested with `and`: (occ, general) now takes the projector branch, delta_pq * [q occupied], which has
    # the same value because p is occupied
    dict(id="c01-ok-table-redundant-projector", prop="C01", file=F, expect=None,
         old='        elif space_p == "o" or space_q == "o":\n            return KroneckerDelta(p_idx, q_idx)',
         new='        elif space_p == "o" and space_q == "o":\n            return KroneckerDelta(p_idx, q_idx)'),
    dict(id="c01-is-empty-never", prop="C01", file="rules.py", expect="R01d",
         old="return not bool(self._forbidden_blocks)", new="return False"),
    # a single operator handled by the general branch: the contraction of a string of odd length vanishes (prefilter),
    # so the value is still zero
    dict(id="c01-ok-wicks-single-op-general-branch", prop="C01", file=F, expect=None,
         old="        elif n == 1:  # a single operator\n            return S.Zero\n", new=""),
    dict(id="c01-wicks-bare-operator", prop="C01", file=F, expect="R01d",
         old="    if isinstance(expr, (NO, FermionicOperator)):\n        return S.Zero\n",
         new="    if isinstance(expr, NO):\n        return S.Zero\n"),
    dict(id="c01-prefilter-skips-first", prop="C01", file=F, expect=["R01c", "R01e"],
         old="    for op in op_string:\n        if isinstance(op, Fd):", new="    for op in op_string[1:]:\n        if isinstance(op, Fd):"),
    dict(id="c01-partition-swapped", prop="C01", file=F, expect=["R01d", "R01e"],
         old="            if factor.is_commutative:\n                c_part.append(factor)",
         new="            if not factor.is_commutative:\n                c_part.append(factor)"),
    # ---- round 4: screening by contraction partners (type(..) is type(..) over the operator classes), objects of a
    # term modelled as expr_container.Obj around the four tensor classes / deltas / symbols / numbers
    dict(id="c01-prefilter-partner-particle-test", prop="C01", file=F, expect=["R01c", "R01e"],
         old='        if n_create - n_annihilate > 0:\n            return False\n    return True\n', new='        if n_create - n_annihilate > 0:\n            return False\n    # each operator needs at least one operator it can be contracted with\n    return all(_has_contraction_partner(op_string, pos)\n               for pos in range(len(op_string)))\n\n\ndef _has_contraction_partner(op_string, pos: int) -> bool:\n    op = op_string[pos]\n    for other_pos, other in enumerate(op_string):\n        if type(other) is type(op):  # 2xCreator, 2xAnnihilator or op itself\n            continue\n        left, right = (op, other) if pos < other_pos else (other, op)\n        spaces = {left.args[0].space, right.args[0].space}\n        if isinstance(left, Fd):  # hole contraction: no virtual index\n            if "virt" not in spaces:\n                return True\n        elif "virt" in spaces:  # particle contraction: no occupied index\n            return True\n    return False\n'),
    dict(id="c01-ok-prefilter-partner", prop="C01", file=F, expect=None,
         old='        if n_create - n_annihilate > 0:\n            return False\n    return True\n', new='        if n_create - n_annihilate > 0:\n            return False\n    # each operator needs at least one operator it can be contracted with\n    return all(_has_contraction_partner(op_string, pos)\n               for pos in range(len(op_string)))\n\n\ndef _has_contraction_partner(op_string, pos: int) -> bool:\n    op = op_string[pos]\n    for other_pos, other in enumerate(op_string):\n        if type(other) is type(op):  # 2xCreator, 2xAnnihilator or op itself\n            continue\n        left, right = (op, other) if pos < other_pos else (other, op)\n        spaces = {left.args[0].space, right.args[0].space}\n        if isinstance(left, Fd):  # hole contraction: no virtual index\n            if "virt" not in spaces:\n                return True\n        elif "occ" not in spaces:  # particle contraction: no occupied index\n            return True\n    return False\n'),
    dict(id="c01-rules-type-filter-forgets-nonsym", prop="C01", file="rules.py", expect="R01d",
         old='            if any(obj.name in self._forbidden_blocks\n                   and obj.space in self._forbidden_blocks[obj.name]\n                   for obj in term.objects):\n                continue\n            res += term\n        return res\n', new='            if self._contains_forbidden_block(term):\n                continue\n            res += term\n        return res\n\n    def _contains_forbidden_block(self, term) -> bool:\n        for obj in term.objects:\n            # only tensors have a block: skip prefactors, symbols and deltas\n            if obj.type_as_str not in ("antisymtensor", "symtensor", "amplitude"):\n                continue\n            forbidden = self._forbidden_blocks.get(obj.name, None)\n            if forbidden is not None and obj.space in forbidden:\n                return True\n        return False\n'),
    dict(id="c01-ok-rules-type-filter", prop="C01", file="rules.py", expect=None,
         old='            if any(obj.name in self._forbidden_blocks\n                   and obj.space in self._forbidden_blocks[obj.name]\n                   for obj in term.objects):\n                continue\n            res += term\n        return res\n', new='            if self._contains_forbidden_block(term):\n                continue\n            res += term\n        return res\n\n    def _contains_forbidden_block(self, term) -> bool:\n        for obj in term.objects:\n            # only tensors have a block: skip prefactors, symbols and deltas\n            if obj.type_as_str not in ("antisymtensor", "symtensor", "amplitude", "nonsymtensor"):\n                continue\n            forbidden = self._forbidden_blocks.get(obj.name, None)\n            if forbidden is not None and obj.space in forbidden:\n                return True\n        return False\n'),
    dict(id="c01-ok-rules-tensor-test-by-name", prop="C01", file="rules.py", expect=None,
         old="            if any(obj.name in self._forbidden_blocks\n",
         new="            if any(obj.name is not None and \"tensor\" in obj.type_as_str + \"tensor\" and obj.name in self._forbidden_blocks\n"),
    # the name read from the base object with a default: a symbol that shares the name of a restricted tensor has no
    # block, deltas and numbers have no name
    dict(id="c01-ok-rules-name-via-base", prop="C01", file="rules.py", expect=None,
         old="            if any(obj.name in self._forbidden_blocks\n                   and obj.space in self._forbidden_blocks[obj.name]",
         new="            if any(getattr(obj.base, \"name\", None) in self._forbidden_blocks\n"
             "                   and obj.space in self._forbidden_blocks[getattr(obj.base, \"name\", None)]"),
]
